#!/opt/veriftools/pyvenv/bin/python
"""atheris target for C19: byte-level fuzzing of propka.hybrid36.decode with the semantic oracle inside the target.

Run under the tooling interpreter:  PYTHONPATH=/repo:/verif python3-vt fuzz/fuzz_c19.py -runs=N -seed=S -max_len=24
A violation prints one line ``FUZZ-VIOLATION <json>`` and raises (libFuzzer then saves the crashing input).
"""
import json
import os
import sys

import atheris

sys.path[:0] = [os.environ.get("VERIF_REPO", "/repo"), os.path.dirname(os.path.dirname(os.path.abspath(__file__)))]
with atheris.instrument_imports(include=["propka.hybrid36"]):
    import propka.hybrid36 as hy
from vlib import refs


def one_input(data):
    fdp = atheris.FuzzedDataProvider(data)
    mode = fdp.ConsumeIntInRange(0, 3)
    if mode == 0:
        s = fdp.ConsumeUnicodeNoSurrogates(8)
    elif mode == 1:
        # strings over the relevant alphabet
        alphabet = "0123456789ABCXYZabcxyz -_+.eE"
        s = "".join(alphabet[b % len(alphabet)] for b in fdp.ConsumeBytes(fdp.ConsumeIntInRange(0, 7)))
    elif mode == 2:
        # a valid value, possibly with one corrupted character
        w = fdp.ConsumeIntInRange(1, 5)
        lo, hi = refs.hy36_range(w)
        n = fdp.ConsumeIntInRange(lo, hi)
        s = refs.hy36_encode(w, n).rjust(w)
        if fdp.ConsumeBool() and s:
            i = fdp.ConsumeIntInRange(0, len(s) - 1)
            s = s[:i] + chr(fdp.ConsumeIntInRange(32, 126)) + s[i + 1:]
    else:
        s = fdp.ConsumeString(6)
    if len(s.strip()) > 5 or "\x00" in s:
        return
    c = refs.hy36_classify(s)
    if c == "unspecified":
        return
    try:
        got, exc = hy.decode(s), None
    except ValueError:
        got, exc = None, "ValueError"
    except Exception as e:          # noqa
        got, exc = None, type(e).__name__
    if c == "malformed":
        ok = exc == "ValueError"
    else:
        ok = exc is None and got == refs.hy36_decode_ref(s)
    if not ok:
        print("FUZZ-VIOLATION " + json.dumps({"kind": "field", "field": s, "outcome": exc or got}), flush=True)
        raise RuntimeError("C19 violated for %r" % s)


if __name__ == "__main__":
    atheris.Setup(sys.argv, one_input)
    atheris.Fuzz()
