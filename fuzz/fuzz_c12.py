#!/opt/veriftools/pyvenv/bin/python
"""atheris target for C12: structure-aware deletion fuzzing.

Bytes -> (template choice, per-atom deletion mask, small coordinate jitter); coverage feedback over propka.*; the
oracle of C12 (no exception + census on what remains) runs inside the target.  Process-wide state is reset at the
top of every iteration (the valence table of the module-level protonator).
"""
import json
import logging
import os
import sys
import tempfile

import atheris

sys.path[:0] = [os.environ.get("VERIF_REPO", "/repo"), os.path.dirname(os.path.dirname(os.path.abspath(__file__)))]
logging.disable(logging.CRITICAL)
with atheris.instrument_imports(include=["propka"]):
    import propka.run          # noqa
    import propka.group
from vlib import gen, pdbio
from props import c12

os.chdir(tempfile.mkdtemp(prefix="vp_fuzz_c12_"))
VALENCE0 = dict(propka.group.PROTONATOR.valence_electrons)
TEMPLATES = []


def build_templates():
    chains = gen.protein_chains("1FTJ-Chain-A")
    ress = chains[0][1]
    for start in (3, 40, 97, 150, 201):
        TEMPLATES.append([[a.copy() for a in r] for r in ress[start:start + 6]])
    for t in ("ARG", "HIS", "TRP", "ASN", "GLN", "TYR", "ASP", "GLU", "LYS", "CYS"):
        for pos in ("mid", "nterm", "cterm"):
            TEMPLATES.append(c12.tripeptide(t, pos)[0])
    het = gen.hetero_residues("1FTJ-Chain-A")
    TEMPLATES.append([[a.copy() for a in r] for r in ress[60:64]] + [[a.copy() for a in r] for r in het[:2]])


def one_input(data):
    propka.group.PROTONATOR.valence_electrons.clear()
    propka.group.PROTONATOR.valence_electrons.update(VALENCE0)
    fdp = atheris.FuzzedDataProvider(data)
    tpl = TEMPLATES[fdp.ConsumeIntInRange(0, len(TEMPLATES) - 1)]
    entries = []
    for res in tpl:
        for a in res:
            b = fdp.ConsumeIntInRange(0, 255) if fdp.remaining_bytes() else 0
            if b & 1 and b & 2:
                continue                                   # delete (25 %)
            a = a.copy()
            if b & 4:
                a.x += (b >> 3) - 16                     # jitter up to 0.016 A
            entries.append(a)
    if not entries:
        return
    if entries[-1].aname not in pdbio.TERMINAL_O and fdp.ConsumeBool():
        entries = entries[:-1] or entries
    seen = set()
    for a in entries:
        while a.xyz in seen:
            a.x += 1
        seen.add(a.xyz)
    pdbio.renumber_serials(entries)
    text = pdbio.write(entries + [gen.ter_line(entries[-1])])
    v, _info = c12.check_text(text)
    if v:
        print("FUZZ-VIOLATION " + json.dumps({"pdb": text, "violation": v[0]}), flush=True)
        raise RuntimeError("C12 violated: %s" % v[0]["detail"][:200])


if __name__ == "__main__":
    build_templates()
    atheris.Setup(sys.argv, one_input)
    atheris.Fuzz()
