#!/bin/bash
# Offline set-up: make sure hypothesis (and numpy, optional) import in /venv; otherwise install from the wheelhouse
# into /verif/.deps (which ./check puts on PYTHONPATH). Nothing is fetched from a network.
HERE="$(cd "$(dirname "$0")" && pwd)"
cd "$HERE" || exit 2
if ! PYTHONPATH="$HERE/.deps" /venv/bin/python -c "import hypothesis" 2>/dev/null; then
  /venv/bin/pip install --no-index --find-links /opt/veriftools/wheels --target "$HERE/.deps" hypothesis || exit 2
fi
PYTHONPATH="/repo:$HERE:$HERE/.deps" /venv/bin/python -c "import hypothesis, propka, vlib.runner; print('setup ok: hypothesis', hypothesis.__version__)" || exit 2
