#!/bin/bash
# tools/sweep.sh <tier> <seed> [<seed> ...]  - run every registered check at the given seeds without touching evidence/
# and print one line per (check, seed): exit code, wall time, first violation.  Used to look for false alarms.
cd "$(dirname "$0")/.." || exit 2
tier=$1; shift
for seed in "$@"; do
  for id in C01 C02 C03 C04 C05 C06 C07 C08 C09 C10 C11 C12 C13 C14 C15 C16 C17 C18 C19 C20; do
    t0=$(date +%s)
    out=$(VERIF_SEED=$seed VERIF_NO_EVIDENCE=1 ./check $id --tier $tier 2>&1)
    rc=$?
    t1=$(date +%s)
    echo "seed=$seed $id exit=$rc wall=$((t1-t0))s $(echo "$out" | grep -A1 '^VIOLATION' | head -2 | tr '\n' ' ' | cut -c1-400)$(echo "$out" | grep 'HARNESS-ERROR' | head -1 | cut -c1-300)"
  done
done
