#!/usr/bin/env python3
"""Evaluate seeded changes: tools/seed_eval.py <src_dir> <PROP> <letter> [check ids...]

Confirms in a scratch worktree of /repo (removed afterwards) that the patch applies, the 49 repository tests pass
with it, the demonstration fails with it and passes without it, then runs the given quick checks against the patched
scratch tree (VERIF_REPO) and stores everything under /verif/seeded/<PROP>_<letter>/.
"""
import json, os, shutil, subprocess, sys, time

ROOT = os.path.dirname(os.path.dirname(os.path.abspath(__file__)))
PY = "/venv/bin/python"


def sh(cmd, cwd=None, env=None, timeout=3600):
    e = dict(os.environ)
    e.update(env or {})
    p = subprocess.run(cmd, shell=True, cwd=cwd, env=e, stdout=subprocess.PIPE, stderr=subprocess.STDOUT, text=True,
                       timeout=timeout)
    return p.returncode, p.stdout


def main():
    src, prop, letter = sys.argv[1], sys.argv[2], sys.argv[3]
    checks = sys.argv[4:] or [prop]
    patch = os.path.join(src, "patch_%s.diff" % letter)
    demo = os.path.join(src, "demo_%s.py" % letter)
    own = os.path.join(ROOT, "seeded", "%s_%s" % (prop, letter), "demo_own.py")
    if os.path.exists(own):
        demo = own          # demonstration rewritten on the current tree (the original one was neutralised by a fix)
    wt = "/tmp/seedwt_%s_%s" % (prop, letter)
    sh("git -C /repo worktree remove --force %s" % wt)
    rc, out = sh("git -C /repo worktree add -q --detach %s HEAD" % wt)
    assert rc == 0, out
    res = {"property": prop, "patch": os.path.basename(patch), "base_commit": sh("git -C /repo rev-parse --short HEAD")[1].strip()}
    try:
        rc, out = sh("%s %s %s" % (PY, demo, wt), cwd=wt, env={"PYTHONPATH": wt})
        res["demo_without_patch"] = {"exit": rc, "tail": out[-300:]}
        rc, out = sh("git apply %s" % patch, cwd=wt)
        if rc != 0:
            # the tree has moved on since the change was written (fix commits): retry with reduced context
            rc2, out2 = sh("git apply -C1 --recount %s || patch -p1 -F3 --no-backup-if-mismatch < %s" % (patch, patch), cwd=wt)
            if rc2 == 0:
                rc, out = 0, ""
                res["applied_with_fuzz"] = True
                sh("git diff > %s.rebased" % patch, cwd=wt)
        res["applies"] = rc == 0
        if rc != 0:
            res["apply_error"] = out[-500:]
        else:
            rc, out = sh("%s -m pytest -q -p no:cacheprovider -x 2>&1 | tail -3" % PY, cwd=wt, env={"PYTHONPATH": wt})
            res["tests_with_patch"] = out.strip().splitlines()[-1] if out.strip() else ""
            rc, out = sh("%s %s %s" % (PY, demo, wt), cwd=wt, env={"PYTHONPATH": wt})
            res["demo_with_patch"] = {"exit": rc, "tail": out[-400:]}
            res["checks"] = {}
            for cid in checks:
                t0 = time.time()
                rc, out = sh("./check %s --tier quick" % cid, cwd=ROOT, env={"VERIF_REPO": wt, "VERIF_NO_EVIDENCE": "1"})
                viol = [l for l in out.splitlines() if l.startswith("VIOLATION")]
                det = [l for l in out.splitlines() if l.startswith("  stage=")]
                res["checks"][cid] = {"exit": rc, "violations": len(viol), "first": (det[0][:400] if det else ""),
                                      "wall_s": round(time.time() - t0, 1)}
    finally:
        sh("git -C /repo worktree remove --force %s" % wt)
        shutil.rmtree(wt, ignore_errors=True)
    # keep results of checks evaluated in earlier invocations
    old_meta = os.path.join(ROOT, "seeded", "%s_%s" % (prop, letter), "meta.json")
    if os.path.exists(old_meta):
        try:
            old = json.load(open(old_meta))
            for cid, r in old.get("checks", {}).items():
                res.setdefault("checks", {}).setdefault(cid, r)
        except Exception:
            pass
    confirmed = (res.get("applies") and "49 passed" in res.get("tests_with_patch", "")
                 and res.get("demo_with_patch", {}).get("exit") == 1 and res["demo_without_patch"]["exit"] == 0)
    res["confirmed"] = bool(confirmed)
    res["caught_by"] = [c for c, r in res.get("checks", {}).items() if r["exit"] == 1]
    dst = os.path.join(ROOT, "seeded", "%s_%s" % (prop, letter))
    os.makedirs(dst, exist_ok=True)
    shutil.copy(patch + ".rebased" if res.get("applied_with_fuzz") and os.path.exists(patch + ".rebased") else patch,
                os.path.join(dst, "patch.diff"))
    if demo != own:
        shutil.copy(demo, os.path.join(dst, "demo.py"))
    else:
        res["demonstration"] = "demo_own.py + case.json (written on the current tree; the sub-agent's demo.py no longer discriminates after a fix commit)"
    meta = {}
    mpath = os.path.join(src, "meta.json")
    if os.path.exists(mpath):
        try:
            m = json.load(open(mpath))
            for p in m.get("patches", []):
                if p.get("file") == "patch_%s.diff" % letter:
                    meta = p
        except Exception:
            pass
    res["summary"] = meta.get("summary")
    res["needs_to_manifest"] = meta.get("needs_to_manifest")
    res["what_i_ran"] = ["git apply patch.diff in a scratch worktree of /repo HEAD", "pytest (49 tests) with the patch",
                         "demo.py with and without the patch", "./check <id> --tier quick with VERIF_REPO=<scratch>"]
    json.dump(res, open(os.path.join(dst, "meta.json"), "w"), indent=1)
    print(json.dumps({k: res.get(k) for k in ("confirmed", "caught_by", "tests_with_patch", "apply_error")}), res.get("checks"))


if __name__ == "__main__":
    main()
