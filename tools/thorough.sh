#!/bin/bash
# tools/thorough.sh <id> [<id> ...]  - run the thorough tier of the given checks once (seed from VERIF_SEED, default 1)
# without touching evidence/; one line per check: exit code, wall time, first violation / harness error.
cd "$(dirname "$0")/.." || exit 2
for id in "$@"; do
  t0=$(date +%s)
  out=$(VERIF_NO_EVIDENCE=1 ./check $id --tier thorough 2>&1)
  rc=$?
  t1=$(date +%s)
  echo "$id exit=$rc wall=$((t1-t0))s $(echo "$out" | grep "tier=thorough" | head -1) $(echo "$out" | grep -A1 '^VIOLATION' | head -2 | tr '\n' ' ' | cut -c1-400)$(echo "$out" | grep 'HARNESS-ERROR' | head -1 | cut -c1-300)"
done
