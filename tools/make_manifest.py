#!/usr/bin/env python3
"""Regenerate MANIFEST.json from the table below (keeps it schema-valid at all times)."""
import json, os, sys
ROOT = os.path.dirname(os.path.dirname(os.path.abspath(__file__)))
sys.path.insert(0, ROOT)
from tools.manifest_table import CHECKS, NOT_APPLICABLE

props = [json.loads(l) for l in open(os.path.join(ROOT, "properties.jsonl"))]
ids = [p["id"] for p in props]
checks = []
for pid in ids:
    if pid not in CHECKS:
        continue
    c = CHECKS[pid]
    checks.append({
        "property_id": pid,
        "quick_cmd": "./check %s --tier quick" % pid,
        "thorough_cmd": "./check %s --tier thorough" % pid,
        "evidence_file": "/verif/evidence/%s.json" % pid,
        "replay_cmd_template": "./check %s --replay {path}" % pid,
        "engine": "vlib",
        "level_claimed": {"category": c["level"], "text": c["text"], "design_ref": "DESIGN.md section 2, %s" % pid},
        "level_note": c["note"],
        "technique": c["technique"],
    })
na = [{"property_id": pid, "reason": NOT_APPLICABLE.get(pid, "check not implemented in this revision of /verif (planned, see DESIGN.md section 2)")}
      for pid in ids if pid not in CHECKS]
manifest = {
    "version": 1,
    "setup_cmd": "./setup.sh",
    "hooks": {
        "guard": "PROPKA_VERIF",
        "enable": "no hooks are needed: every observation point is reachable through propka's public API and object attributes; checks import the working tree of /repo directly (PYTHONPATH=/repo, fresh interpreter per run)",
        "baseline_off_cmd": "cd /repo && /venv/bin/python -m pytest -ra -q -p no:cacheprovider --timeout=900 --continue-on-collection-errors",
        "source_commits": [],
        "add_only": True,
    },
    "engines": [{"name": "vlib", "path": "/verif/vlib", "serves_properties": [c["property_id"] for c in checks],
                 "kind_free_text": "Hypothesis 6.168 property-based testing (sharded over 16 processes, seeded from VERIF_SEED) + exhaustive enumeration of finite domains + atheris fuzz targets in the thorough tier; explicit oracles (reference models, metamorphic and differential relations); replay files are explicit inputs re-executed without Hypothesis"}],
    "checks": checks,
    "notes": "All checks: ./check <ID> --tier quick|thorough; exit 0 held / 1 VIOLATION / 2 harness error. VERIF_REPO overrides the tree under test (default /repo). Fix commits for genuine defects and open findings are listed in known_findings.json and DESIGN.md section 1.7/4.",
}
if na:
    manifest["not_applicable"] = na
json.dump(manifest, open(os.path.join(ROOT, "MANIFEST.json"), "w"), indent=1)
print("MANIFEST.json: %d checks, %d not claimed" % (len(checks), len(na)))
try:
    import jsonschema
    jsonschema.validate(manifest, json.load(open("/root/.vp/MANIFEST.schema.json")))
    print("schema ok")
except ImportError:
    pass
