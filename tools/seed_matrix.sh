#!/bin/bash
# Evaluate every seeded change found under $1 (default /tmp/mut) against the check of its own property.
cd "$(dirname "$0")/.." || exit 2
SRC=${1:-/tmp/mut}
for d in $SRC/C??_out; do
  id=$(basename $d | cut -c1-3)
  for p in $d/patch_*.diff; do
    l=$(basename $p .diff | sed 's/patch_//')
    [ -f "$d/demo_$l.py" ] || continue
    python3 tools/seed_eval.py $d $id $l 2>&1 | tail -1 | cut -c1-260 | sed "s/^/$id $l /"
  done
done
