#!/usr/bin/env python3
"""Re-evaluate stored seeded changes on the current trees: tools/seed_recheck.py <name> [check ids...]

<name> is a directory under /verif/seeded.  Without check ids, the checks recorded in its meta.json are run again.
The patch is applied to a scratch worktree of /repo HEAD (removed afterwards); meta.json is updated in place.
"""
import json, os, shutil, subprocess, sys, time

ROOT = os.path.dirname(os.path.dirname(os.path.abspath(__file__)))
PY = "/venv/bin/python"


def sh(cmd, cwd=None, env=None, timeout=3600):
    e = dict(os.environ)
    e.update(env or {})
    p = subprocess.run(cmd, shell=True, cwd=cwd, env=e, stdout=subprocess.PIPE, stderr=subprocess.STDOUT, text=True,
                       timeout=timeout)
    return p.returncode, p.stdout


def main():
    name = sys.argv[1]
    d = os.path.join(ROOT, "seeded", name)
    meta = json.load(open(os.path.join(d, "meta.json")))
    checks = sys.argv[2:] or sorted(meta.get("checks", {})) or [name[:3]]
    patch = os.path.join(d, "patch.diff")
    demo = os.path.join(d, "demo_own.py") if os.path.exists(os.path.join(d, "demo_own.py")) else os.path.join(d, "demo.py")
    wt = "/tmp/seedwt_re_%s" % name
    sh("git -C /repo worktree remove --force %s" % wt)
    rc, out = sh("git -C /repo worktree add -q --detach %s HEAD" % wt)
    assert rc == 0, out
    meta["base_commit"] = sh("git -C /repo rev-parse --short HEAD")[1].strip()
    try:
        rc, out = sh("%s %s %s" % (PY, demo, wt), cwd=wt, env={"PYTHONPATH": wt})
        meta["demo_without_patch"] = {"exit": rc, "tail": out[-300:]}
        rc, out = sh("git apply %s" % patch, cwd=wt)
        if rc != 0:
            rc, out2 = sh("git apply -C1 --recount %s || patch -p1 -F3 --no-backup-if-mismatch < %s" % (patch, patch), cwd=wt)
            out += out2
            if rc == 0:
                meta["applied_with_fuzz"] = True
        meta["applies"] = rc == 0
        if rc != 0:
            meta["apply_error"] = out[-500:]
            for k in ("tests_with_patch", "demo_with_patch", "checks"):
                meta.pop(k, None)          # nothing measured on this tree
        else:
            meta.pop("apply_error", None)
            rc, out = sh("%s -m pytest -q -p no:cacheprovider -x 2>&1 | tail -3" % PY, cwd=wt, env={"PYTHONPATH": wt})
            meta["tests_with_patch"] = out.strip().splitlines()[-1] if out.strip() else ""
            rc, out = sh("%s %s %s" % (PY, demo, wt), cwd=wt, env={"PYTHONPATH": wt})
            meta["demo_with_patch"] = {"exit": rc, "tail": out[-400:]}
            meta.setdefault("checks", {})
            for cid in checks:
                t0 = time.time()
                rc, out = sh("./check %s --tier quick" % cid, cwd=ROOT, env={"VERIF_REPO": wt, "VERIF_NO_EVIDENCE": "1"})
                viol = [l for l in out.splitlines() if l.startswith("VIOLATION")]
                det = [l for l in out.splitlines() if l.startswith("  stage=")]
                meta["checks"][cid] = {"exit": rc, "violations": len(viol), "first": (det[0][:400] if det else ""),
                                       "wall_s": round(time.time() - t0, 1)}
    finally:
        sh("git -C /repo worktree remove --force %s" % wt)
        shutil.rmtree(wt, ignore_errors=True)
    meta["confirmed"] = bool(meta.get("applies") and "49 passed" in meta.get("tests_with_patch", "")
                             and meta.get("demo_with_patch", {}).get("exit") == 1
                             and meta["demo_without_patch"]["exit"] == 0)
    meta["caught_by"] = [c for c, r in meta.get("checks", {}).items() if r["exit"] == 1]
    json.dump(meta, open(os.path.join(d, "meta.json"), "w"), indent=1)
    print(name, json.dumps({k: meta.get(k) for k in ("confirmed", "caught_by", "tests_with_patch", "apply_error")}),
          {c: r["exit"] for c, r in meta.get("checks", {}).items()})


if __name__ == "__main__":
    main()
