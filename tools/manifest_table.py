"""Per-property entries of MANIFEST.json (edited by hand; tools/make_manifest.py renders it)."""
NOT_APPLICABLE = {}
CHECKS = {
 "C20": {
  "level": "exploration",
  "technique": "property-based testing (Hypothesis) against a closed-form Rodrigues reference + explicit enumeration of all 26 axis sign/zero patterns",
  "text": "Generated (angle, axis, vector) triples are compared component-wise with an independent closed-form Rodrigues rotation; the measure-zero families where axis components are exactly zero (the code's case split) are enumerated with all sign patterns, magnitudes and axis scales, so the only way to miss a defect is a case split at a non-zero value the generator does not hit. Axes tilted by 1e-9 .. 1e-2 rad away from every coordinate direction are enumerated as well.",
  "note": "Trusts vlib/refs.py:rodrigues (12 lines) and a relative tolerance of 1e-6 (implementation is accurate to ~1e-8 for ill-conditioned axes). No absence proof: floats are sampled.",
 },
 "C19": {
  "level": "exploration",
  "technique": "exhaustive enumeration of valid field values (width 1-4 always, width 5 in the thorough tier) against a reference encoder + exhaustive/Hypothesis-generated malformed strings against an independent classifier",
  "text": "Round trip decode(ref_encode(n)) == n for every representable integer of width 1-4 (2.5M values, exhaustive) and width 5 (87.5M values: exhaustive in the thorough tier, 2.2M values around every segment boundary in the quick tier), bare and blank-padded; malformed strings exhaustively to width 3 over a reduced alphabet and sampled to width 5 must raise ValueError; well-formed strings are compared with a reference decoder. An atheris target fuzzes decode() at byte level with the same oracle inside (320 k executions quick, 24 M thorough); the serial-column stage rewrites serials of single- and multi-conformation inputs with arbitrary valid encodings, duplicates and descending order.",
  "note": "Trusts vlib/refs.py hy36_encode/hy36_classify/hy36_decode_ref (written from the format description). Sign + letter form and non-blank whitespace padding are not classified. Width-5 coverage is exhaustive only in the thorough tier.",
 },
 "C07": {
  "level": "exploration",
  "technique": "metamorphic property-based testing (Hypothesis): generated structures x generated edits of unused content; records must be identical",
  "text": "For generated structures (segments and balls of the reference proteins with threaded mutations, relabelled chains, library ligands and ions) the full observation record and the .pka text must be bit-identical after inserting ignorable residues (HETATM and ATOM tagged, at chain starts, after TER, anywhere), hydrogens under all PDB naming styles, non-atom records, and after rewriting serial/occupancy/B/element/charge columns or truncating lines; --protonate-all and the keep-protons round trip must reproduce every group within 1e-9. The keep-protons clause is also run with all hydrogens of a --protonate-all run fed back.",
  "note": "Trusts the harness PDB writer/reader (vlib/pdbio.py) and the coordinate-based group keying (vlib/observe.py). Sampled, not exhaustive; edits are limited to the classes listed in the evidence rule.",
 },
 "C06": {
  "level": "exploration",
  "technique": "metamorphic property-based testing (Hypothesis): generated structures x generated order-preserving relabellings; records keyed by file position must be unchanged",
  "text": "Generated structures (incl. insertion codes, blank/digit/lower-case chain ids, hetero groups, TER-less chain breaks) are relabelled by injective chain renaming, per-chain shifts (to negative numbers, to a start at exactly 0, by multiples of 1000), strictly increasing renumbering and resolving/introducing insertion codes; every group record keyed by file position must agree within 1e-9 (counts exact) and labels must follow the relabelling. A dedicated stage relabels two chains joined by a disulfide bridge so that both cysteines carry the same residue number.",
  "note": "Open known finding F5 (insertion-code twins treated as one residue) is excluded by signature: only relabellings that create/resolve twins and only when every differing group is within 30 A of a twin residue. Fixed finding F10 (terminus bookkeeping by residue number only) is a regression case.",
 },
 "C13": {
  "level": "exploration",
  "technique": "differential property-based testing (Hypothesis): -c subset on the full file vs. no option on the file with the other chains' records deleted, bit-exact",
  "text": "For generated multi-chain structures (upper/lower-case, digit and blank chain ids, TER present or absent between chains, hetero groups with their own or a protein chain's id, hetero records first, optional second MODEL) and generated non-empty subsets of chains, the complete observation record and the .pka text of the -c run must be bit-identical to the run on the filtered file.",
  "note": "Trusts the harness PDB reader/writer for building the filtered file. Subsets and structures are sampled.",
 },
 "C14": {
  "level": "exploration",
  "technique": "differential/metamorphic property-based testing (Hypothesis): -i list vs. option-free run of the same generated structure",
  "text": "For generated structures and generated residue lists (subsets, singletons, all residues, duplicates, phantom entries, insertion-coded residues) the reported groups must be exactly the option-free reported groups lying in listed residues with unchanged titratable flags; desolvation terms, buried counts, backbone determinants and non-iterative side-chain determinants of listed groups must equal the option-free run; Coulomb determinants may only name listed partners or ions; listing everything must equal no option (1e-9); phantom entries must change nothing (bit-exact). The same clauses run on multi-conformation inputs (atoms copied between conformations must still match the list); an unlisted partner of an iterative like-charge pair must keep its hydrogen-bond determinant.",
  "note": "The environment clause is not asserted for determinants towards partners penalised by covalent coupling or for covalently coupled groups (those legitimately differ between the two runs: coupling is only established among titratable groups). Blank chain ids are outside the domain. Open finding F5 (insertion-code twins) excluded by signature.",
 },
 "C04": {
  "level": "exploration",
  "technique": "metamorphic property-based testing (Hypothesis): generated structures x exact grid motions (24 rotations x integer milli-Angstrom translations); records mapped back through the exact inverse motion",
  "text": "Three layers: (1) for every generated structure, heavy-atom bond sets, protein/ion groups, centres, desolvation terms and buried counts are equal in both frames; (2) for amino-acid structures with hydrogens supplied (keep-protons) the entire record is equal within 1e-9; (3) when the program builds the hydrogens, hydrogen sets correspond one-to-one within a grid step and the moved-frame record equals the frame-0 keep-protons record obtained by feeding the moved frame's hydrogens back (the 'explained difference' oracle: the only allowed difference is the rounding of constructed hydrogens). A further stage moves whole reference proteins with threaded clusters (only there the backbone-reorganisation and Coulomb terms are switched on), and the six corpus files are run in all 24 orientations.",
  "note": "Exact threshold ties (bond cut-offs in integer arithmetic; 15/20 A cut-offs within 1e-6 A) are excluded and counted. Open findings F8 (ambiguous C-terminal carbon) and F11 (frame-dependent rotamer for hydrogens on atoms with a single heavy neighbour) are excluded by signatures computed from the input with the all-pairs reference bond rule. Severely clashing threaded side chains (spurious bonds) are not generated for this property.",
 },
 "C05": {
  "level": "exploration",
  "technique": "metamorphic/differential property-based testing (Hypothesis): union of two generated structures at generated separations vs. each part alone",
  "text": "Pairs of generated structures (independent, or a structure and its own copy with the same or fresh chain ids) are separated by a bounding-box gap from 25.001 A up to the limit of the PDB coordinate field (A pushed to the opposite corner), in both file orders; the union's records restricted to a part must equal the part run alone (1e-9) and no separation may raise. Fixed finding F4 (>1000 A) is a permanent regression case.",
  "note": "Separation is a bounding-box gap along one axis (>= 25 A between nearest atoms, the statement's sufficient condition). Parts are always separated by a TER record. Sampled.",
 },
 "C01": {
  "level": "exploration",
  "technique": "property-based testing (Hypothesis) against an independent reference model (census of ionizable sites computed from the PDB text) + exhaustive pass over the ligand/ion library",
  "text": "For generated structures and option settings the reported groups of every conformation must be in bijection (by file position and kind) with an independent census written from the statement (side-chain sites by residue+atom name, termini by the streaming chain-start rule, disulfides by the S-S distance rule), carry the tabulated model pKa, report bridged cysteines as non-titrating 99.99; the parsed summary rows of the .pka file and the average conformation must show each group exactly once; hetero groups must carry the model pKa/charge configured for their type (parameter file read by an independent reader) and each of the 19 library ligands / 21 ion names must yield its chemically expected group types.",
  "note": "Trusts vlib/census.py (about 80 lines), vlib/pkaparse.py and the hand-written ligand library with its expected group types. Groups discarded through covalent coupling are required to be absent from the summary (design of the shipped parameters). Multi-conformation inputs only with identical composition (C08 covers the rest). Open finding F5 excluded by signature.",
 },
 "C02": {
  "level": "exploration",
  "technique": "property-based testing (Hypothesis): arithmetic identity per group + fixed-column parse of the written .pka compared with the API record, over generated structures x options x parameter-file variants",
  "text": "For every group of every conformation and of the average the reported pKa must equal model pKa + both desolvation terms + the sum of all listed determinants (1e-9; bridged cysteines exactly 99.99), for generated single- and multi-conformation structures under {none, -i, -c, -d} and parameter files that toggle remove_penalised_group / shared_determinants / common_charge_centre; the written file is parsed by columns and must list exactly the expected groups, with table pKa == summary pKa == a correct rounding of the API value, matching desolvation columns and counts, row k of column t equal to the k-th determinant of type t, padding elsewhere.",
  "note": "Trusts vlib/pkaparse.py and the ordering rule (chains x write_out_order) re-implemented in the check. Fixed findings F6 and F12 are regression cases (F12 witness: 3SGB with shared_determinants 1, remove_penalised_group 0).",
 },
 "C08": {
  "level": "exploration",
  "technique": "property-based testing (Hypothesis) over generated multi-conformation inputs against (i) an atom-set model of topping-up and (ii) an independent recomputation of the mean from the per-conformation records",
  "text": "Generated MODEL / alternate-location inputs (2-4 conformations, letters and digits as tags, partial and whole-residue alternates, point mutants in any conformation, missing atoms/residues, identical models, single conformation): every conformation must keep its atoms, gain the atoms it lacks from conformations with the same residue type at that position and never hold two residue types at one position; the average must hold exactly one group per site occurring anywhere, with pKa, desolvation, buried, counts and per-partner determinant sums equal to the arithmetic mean over the conformations that contain the group; single conformation == average; identical models == single model. Conformation names must follow MODEL number and alternate-location tag (blank -> A, digit n -> n-th letter); arbitrary single-conformation structures (duplicate ligand copies, ions) must report exactly their only conformation.",
  "note": "Per-conformation records are taken as ground truth (checked by C01/C02). Groups bridged in only some conformations are not compared. Fixed findings F6 (divisor / missing groups) and F13 (shadowed donor atoms) are regression cases.",
 },
 "C12": {
  "level": "fault_enumeration",
  "technique": "exhaustive enumeration of atom-deletion faults per residue type (54,512 truncated peptides) + Hypothesis-generated multi-residue deletions, judged by 'no exception' and the independent census of C01; exhaustive list of rejection cases",
  "text": "Every subset of the atoms of each of the 20 residue types inside GLY-X-GLY, and of the 7 ionizable types as N-terminal and C-terminal residue, is deleted (exhaustive); generated structures with ligands, ions and several chains lose single atoms, side chains, backbone atoms, termini, whole residues or ligand atoms at 2-60 %; each truncated input must run to completion and report exactly the sites whose defining atom remains. Empty / atom-free inputs and unknown file types must raise ValueError and nothing else. An atheris (libFuzzer) target with the same oracle inside decodes bytes into template + deletion mask + jitter with coverage feedback over propka.* (1.9 k executions quick, 96 k thorough).",
  "note": "Exhaustive only for single-residue truncations on one backbone geometry; multi-residue truncations are sampled. Trusts vlib/census.py.",
 },
 "C11": {
  "level": "exploration",
  "technique": "property-based testing (Hypothesis) of the cell-list bond search against an O(n^2) reference in exact integer arithmetic; targeted generator for all 26 neighbour-cell directions and on-boundary placements",
  "text": "Atom sets handed directly to the bond search (random clouds anywhere in the coordinate field; pairs placed around every bonding threshold relative to the 2.51 A cell lattice so that the partner lies in each of the 26 neighbouring cells or exactly on a cell face/edge/corner; permuted lists; unique, constant and repeated serial numbers) must produce exactly the reference bond set, symmetric lists without self-bonds or duplicates, order independence, bridge flags on exactly the S-S pairs within 2.5 A, and a symmetric pair predicate equal to the reference; end to end, cysteine pairs at 1.9-2.7 A are reported bridged (99.99) iff within 2.5 A.",
  "note": "Trusts vlib/refs.py:ref_bonded (independent constants, exact integer arithmetic). Exact threshold ties are excluded. The F-F 1.7 A entry of the code is shadowed by the default rule; the reference follows the code (documented).",
 },
 "C09": {
  "level": "exploration",
  "technique": "property-based testing (Hypothesis) against an independent Henderson-Hasselbalch reference: unit level (single groups), structure level (profiles, printed table, pI root bracketing) and call histories on one container",
  "text": "Single-group charges are compared with an independent HH evaluation (range, half charge at pH = pKa, never increasing) over pKa in [-20,40] and pH in [-200,200] incl. neighbouring floats; for generated structures (acids only, bases only, mixed, ligand-only, nothing titratable) and generated grids every API profile row and every printed row must equal the sums of HH charges with model / predicted pKa (unfolded, folded order), and every pI (default and user windows/precisions, and the printed line) must bracket a root of the right reference curve; histories query profiles and pI before and after the pKa calculation on the same container. For multi-conformation inputs the file written for every single conformation (propka.output.write_pka) must carry the table and pI of that conformation.",
  "note": "Trusts vlib/refs.py:hh_charge (5 lines). Single-group comparisons use 1e-12, totals 1e-9, printed values must be correct roundings. |pKa - pH| < 308 (float range).",
 },
 "C10": {
  "level": "exploration",
  "technique": "property-based testing (Hypothesis): closed-form and Simpson proton-linkage oracles over the reported profiles, independent grid enumeration, re-derived optimum and ranges, parsed .pka sections, over generated structures x grids x windows x parameter variants",
  "text": "For generated structures, user grids (incl. decimal steps that do not accumulate exactly, negative minima, maxima > 14), windows and parameter files with shifted model pKa values (run one after another in the same process), both references: the dG profile equals the closed-form linkage expression built from the record (1e-9) and is Simpson-consistent with the reported charge curves; profile pH values are exactly min + i*step incl. both end points; optimum, 80 % range and stability range are re-derived from the profile; the printed charge table, folding window rows, optimum and range lines agree.",
  "note": "Printed folding rows are asserted only where every reading of 'window' agrees (grid step >= 0.1, window minimum a multiple of the window step, lattice points on the grid). Fixed findings F2, F3, F14 are regression cases.",
 },
 "C18": {
  "level": "exploration",
  "technique": "property-based testing (Hypothesis) of generated parameter files against an independent dictionary model, checked after every parsed line; exhaustive enumeration of all pairs of creatable group types under the shipped file",
  "text": "Part 1: files from a grammar (matrix rows with invented names and I/N/-/numeric cells, pair lines in any order with repeats, default line anywhere or absent, scalar cut-offs set through plain and _squared names in any sequence, comments/tabs) are parsed line by line and through read_parameter_file; after every line all ordered look-ups (incl. unknown names) of both matrices must equal the reference model - which implies symmetry, default fall-back and last-definition-wins - and every squared cut-off must equal the square of the plain one. Part 2 (exhaustive): under the shipped file every ordered pair of the 28 creatable group types has an entry in {I,N,-}, every model-pKa type is written out with a non-zero charge, all inner cut-offs are below the outer ones.",
  "note": "The set of creatable types is derived by introspecting propka/group.py (is_ligand_group_by_groups source, protein_group_mapping). Unreachable matrix rows (SER) are reported in evidence only. Fixed finding F7 (Cl vs CL) is covered by part 2.",
 },
 "C15": {
  "level": "exploration",
  "technique": "differential property-based testing (Hypothesis): the same generated structure with the coupling analysis enabled and disabled (harness toggles NCCG.do_prot_stat), plus symmetry and star predicates",
  "text": "Whole reference proteins with threaded clusters of like groups around buried positions (31 % of the quick-tier cases end with coupled pairs, 85 % perform swaps), incl. cases in which two neighbouring groups share a label, and the same comparison after an earlier run with the display option in the same process: every pKa must agree within 1e-9 and every determinant multiset exactly; coupling lists must be symmetric; the API determinant string of every group of every conformation and the written table carry a star iff the group has a coupled partner.",
  "note": "swap_interactions is wrapped from the harness only to count swaps (non-triviality). The toggle is a plain attribute of the module-level NCCG object, restored after each run.",
 },
 "C16": {
  "level": "exploration",
  "technique": "property-based testing (Hypothesis): sign and bound predicates from the statement on every titratable group of generated structures covering the interaction classes absent from the references; unit-level predicates on the energy functions",
  "text": "Whole reference proteins with threaded acid-acid, base-base, his-his, cys-cys, cys-his, acid-base, tyr-any clusters at buried positions, library ions (all 21 names) and ligands of every titratable type next to the cluster, corpus-derived structures with every library ligand, and parameter files with desolvationAllowance 0 / 0.1 / 0.4: desolvation and backbone signs, Coulomb signs for like and opposite charges and for ions, bounds (2 x side-chain maximum except the configured CYS-CYS value; Coulomb value at the inner cut-off with dielectric 30, times the formal charge for ions), buried fraction in [0,1], equal-and-opposite Coulomb determinants of acid-base pairs of reported protein side chains; ranges, cut-offs and monotonicity of coulomb_energy, hydrogen_bond_energy and the weight functions. Parameter files that toggle remove_penalised_group / common_charge_centre are included; under shared_determinants only the magnitude bounds are asserted.",
  "note": "Bounds are read from the Parameters object of the run, the constants 244.12 and 30 from the statement. Default options only.",
 },
 "C17": {
  "level": "exploration",
  "technique": "property-based testing (Hypothesis): geometric predicates on every constructed hydrogen, complement counts on residues classified regular by an independent template/bond-rule model, metamorphic orientation clause under exact grid motions",
  "text": "Generated structures in drawn grid orientations (default, --protonate-all, and own hydrogens fed back with --keep-protons), every library ligand and synthetic centres of 10 elements with 0-3 neighbours (planar, pyramidal, linear): each constructed hydrogen has exactly one heavy parent that lists it back, sits at the tabulated X-H length within 0.0015 A, and keeps >= 0.5 A from its siblings; residues whose reference-rule bond graph equals the hand-written template and whose chain neighbours are present carry exactly His 2 / Arg 5 / Asn, Gln 2 / Trp 1 / backbone 1 hydrogens and raise no 'missing atoms or failed protonation' warning; hydrogen sets of two orientations correspond one-to-one within a grid step.",
  "note": "'Regular' is the harness's predicate (vlib/templates.py); residues failing it are outside the completeness claim. Hetero atoms are outside the orientation clause (rotamers frame-dependent by design). Open findings F11 and F8 excluded from the orientation clause by signature.",
 },
 "C03": {
  "level": "exploration",
  "technique": "stateful model-based testing (Hypothesis RuleBasedStateMachine) over call histories in one process, each run compared bit-exactly with the same (content, options) executed alone in a fresh interpreter; histories run in 16 interpreters with different hash seeds",
  "text": "A per-run catalogue of inputs (generated peptides, inputs with elements missing from the valence table, ligands with covalently coupled groups, multi-conformation files, a buried cluster of coupled acids, the corpus file 1HPX) and 9 option sets (default, -d, -i, -c, -k, --protonate-all, -g/-w, -p with different scoring flags and coupling thresholds, -q); rules: run from a stream, run from a path in drawn directories, CLI main() with several files in one invocation, allocation churn, garbage-collector toggling. After every run the canonical record (every float bit for bit, .pka text minus the date) must equal the fresh-interpreter reference; the references themselves are computed under three hash seeds and as path and stream (297 fresh interpreters in the quick tier) and must agree. The catalogue also holds a CR LF copy and a sloppy CR LF file with unpadded TER lines (purity must hold for any content); a parameter file with other settings lies under the default name in one of the drawn working directories and must never be picked up.",
  "note": "Object addresses and set orders are perturbed, not enumerated: a miss is possible, a false alarm is not. The order of covalently coupled partner lists is compared as a set (not a reported number).",
 },
}
