"""Per-property entries of MANIFEST.json (edited by hand; tools/make_manifest.py renders it)."""
NOT_APPLICABLE = {}
CHECKS = {
 "C20": {
  "level": "exploration",
  "technique": "property-based testing (Hypothesis) against a closed-form Rodrigues reference + explicit enumeration of all 26 axis sign/zero patterns",
  "text": "Generated (angle, axis, vector) triples are compared component-wise with an independent closed-form Rodrigues rotation; the measure-zero families where axis components are exactly zero (the code's case split) are enumerated with all sign patterns, magnitudes and axis scales, so the only way to miss a defect is a case split at a non-zero value the generator does not hit.",
  "note": "Trusts vlib/refs.py:rodrigues (12 lines) and a relative tolerance of 1e-6 (implementation is accurate to ~1e-8 for ill-conditioned axes). No absence proof: floats are sampled.",
 },
}
