#!/bin/bash
# tools/sweep_some.sh <tier> "<ids>" <seed> [<seed> ...] - like sweep.sh for a subset of the checks
cd "$(dirname "$0")/.." || exit 2
tier=$1; ids=$2; shift; shift
for seed in "$@"; do
  for id in $ids; do
    t0=$(date +%s)
    out=$(VERIF_SEED=$seed VERIF_NO_EVIDENCE=1 ./check $id --tier $tier 2>&1)
    rc=$?
    t1=$(date +%s)
    echo "seed=$seed $id exit=$rc wall=$((t1-t0))s $(echo "$out" | grep -A1 '^VIOLATION' | head -2 | tr '\n' ' ' | cut -c1-400)$(echo "$out" | grep 'HARNESS-ERROR' | head -1 | cut -c1-300)"
  done
done
