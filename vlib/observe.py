"""Run propka on a PDB text and build the canonical observation record (DESIGN 1.2).

Groups and atoms are keyed by the *position in file order* of the defining atom in the input (recovered through the
atom's coordinates), because labels are not unique and propka renumbers atoms.
"""
import io
import logging
import os
import traceback

from vlib import pdbio

DET_TYPES = ("sidechain", "backbone", "coulomb")


class _Capture(logging.Handler):
    def __init__(self):
        super().__init__(level=logging.WARNING)
        self.messages = []

    def emit(self, record):
        try:
            self.messages.append(record.getMessage())
        except Exception:
            self.messages.append(str(record.msg))


def milli(v):
    return int(round(v * 1000.0))


class KeyMap:
    """coordinates (milli-A) -> file index of the atom record (per model when coordinates repeat)."""

    def __init__(self, text):
        self.atoms = pdbio.atoms_of(pdbio.parse(text))
        self.by_xyz = {}
        for i, a in enumerate(self.atoms):
            self.by_xyz.setdefault(a.xyz, []).append(i)

    def key(self, atom, model=None):
        xyz = (milli(atom.x), milli(atom.y), milli(atom.z))
        idx = self.by_xyz.get(xyz)
        if not idx:
            return None
        if len(idx) > 1 and model is not None:
            for i in idx:
                if self.atoms[i].model == model:
                    return i
        return idx[0]


def _innermost_propka_frame(tb):
    frame = None
    for fs in traceback.extract_tb(tb):
        if os.sep + "propka" + os.sep in fs.filename:
            frame = "%s:%s" % (os.path.basename(fs.filename), fs.name)
    return frame


def run(text, optargs=(), name="case", write_pka=True, capture=False, stream=True, want_atoms=False,
        want_profiles=False, keep_mol=False, path=None, stream_obj=None):
    """Run propka.run.single and return the observation record.

    The .pka file is written into the current directory (the worker's scratch directory) and removed again."""
    import propka.run
    rec = {"error": None, "warnings": [], "confs": {}, "conf_names": [], "pka_text": None, "optargs": list(optargs)}
    handler = None
    if capture:
        handler = _Capture()
        plog = logging.getLogger("propka")
        plog.addHandler(handler)
        old_disable = logging.root.manager.disable
        logging.disable(logging.INFO)
    fname = name + ".pdb"
    mol = None
    try:
        if path is not None:
            mol = propka.run.single(path, list(optargs), write_pka=write_pka)
        else:
            mol = propka.run.single(fname, list(optargs), stream=stream_obj if stream_obj is not None
                                    else io.StringIO(text), write_pka=write_pka)
    except BaseException as e:      # SystemExit from argparse included
        if isinstance(e, KeyboardInterrupt):
            raise
        rec["error"] = {"type": type(e).__name__, "msg": str(e)[:300], "frame": _innermost_propka_frame(e.__traceback__)}
    finally:
        if capture:
            logging.getLogger("propka").removeHandler(handler)
            logging.disable(old_disable)
            rec["warnings"] = handler.messages
    if mol is None:
        return rec
    if write_pka:
        stem = os.path.splitext(os.path.basename(path if path is not None else fname))[0]
        for cand in (stem + ".pka", stem + "_alt_state.pka"):
            if os.path.exists(cand):
                with open(cand) as fh:
                    txt = fh.read()
                os.remove(cand)
                # drop the date line (first line)
                rec["pka_text"] = txt.split("\n", 1)[1] if "\n" in txt else txt
                rec["pka_file"] = cand
    km = KeyMap(text)
    rec["conf_names"] = list(mol.conformation_names)
    for cname in list(mol.conformation_names) + ["AVR"]:
        conf = mol.conformations.get(cname)
        if conf is None:
            continue
        model = None
        if cname != "AVR":
            try:
                model = int(cname[:-1])
            except ValueError:
                model = None
        rec["confs"][cname] = _conf_record(conf, km, model, want_atoms and cname != "AVR")
    if want_profiles:
        grid = tuple(mol.options.grid)
        rec["grid"] = grid
        rec["window"] = tuple(mol.options.window)
        try:
            rec["charge_profile"] = [tuple(r) for r in mol.get_charge_profile(conformation="AVR", grid=grid)]
            prof, opt, r80, stab = mol.get_folding_profile(conformation="AVR", reference="neutral", grid=grid)
            rec["folding_profile"] = {"profile": [tuple(p) for p in prof], "opt": tuple(opt), "range80": tuple(r80),
                                      "stability": tuple(stab)}
            rec["pi"] = tuple(mol.get_pi(conformation="AVR"))
        except Exception as e:
            rec["profile_error"] = {"type": type(e).__name__, "msg": str(e)[:200],
                                    "frame": _innermost_propka_frame(e.__traceback__)}
    if keep_mol:
        rec["_mol"] = mol
    return rec


def _gkey(group, km, model):
    return km.key(group.atom, model)


def _conf_record(conf, km, model, want_atoms):
    groups = []
    for g in conf.groups:
        dets = {}
        for t in DET_TYPES:
            lst = []
            for d in g.determinants[t]:
                partner = getattr(d, "group", None)
                patom = getattr(partner, "atom", None)
                lst.append((km.key(patom, model) if patom is not None else None, d.label, d.value))
            dets[t] = lst
        groups.append({
            "key": _gkey(g, km, model), "label": g.label, "type": g.type, "rtype": g.residue_type,
            "titratable": bool(g.titratable), "charge": g.charge, "model_pka": g.model_pka, "pka": g.pka_value,
            "buried": g.buried, "evol": g.energy_volume, "nvol": g.num_volume, "eloc": g.energy_local,
            "nloc": g.num_local, "center": (g.x, g.y, g.z), "dets": dets,
            "cov": sorted(k for k in (_gkey(o, km, model) for o in g.covalently_coupled_groups) if k is not None),
            "noncov": sorted(k for k in (_gkey(o, km, model) for o in g.non_covalently_coupled_groups)
                             if k is not None),
            "ctg": _gkey(g.coupled_titrating_group, km, model) if g.coupled_titrating_group else None,
            "reported": bool(g.use_in_calculations()), "bridge": bool(g.atom.cysteine_bridge),
            "hetatm": g.atom.type == "hetatm", "resname": g.atom.res_name, "aname": g.atom.name,
            "chain": g.atom.chain_id, "resnum": g.atom.res_num, "icode": (g.atom.icode or " "),
            "n_ia_acid": len(g.interaction_atoms_for_acids), "n_ia_base": len(g.interaction_atoms_for_bases),
        })
    out = {"groups": groups, "coupled_flag": bool(conf.non_covalently_coupled_groups),
           "chains": list(conf.chains)}
    if want_atoms:
        atoms = []
        ids = {}
        for a in conf.atoms:
            if a.element != "H":
                ids[id(a)] = km.key(a, model)
        hcount = {}
        for a in conf.atoms:
            if a.element == "H" and id(a) not in ids:
                k = km.key(a, model)
                if k is None:
                    parent = ids.get(id(a.bonded_atoms[0])) if a.bonded_atoms else None
                    n = hcount.get(parent, 0)
                    hcount[parent] = n + 1
                    k = ("H", parent, n)
                ids[id(a)] = k
        for a in conf.atoms:
            atoms.append({"key": ids[id(a)], "elem": a.element, "name": a.name, "xyz": (milli(a.x), milli(a.y), milli(a.z)),
                          "bonded": [ids.get(id(b)) for b in a.bonded_atoms], "type": a.type,
                          "resname": a.res_name, "resnum": a.res_num, "chain": a.chain_id,
                          "icode": (a.icode or " "),
                          "bridge": bool(a.cysteine_bridge), "sybyl": a.sybyl_type,
                          "from_file": km.key(a, model) is not None})
        out["atoms"] = atoms
    return out


# ---- comparing records ------------------------------------------------------------------------------------------

NUM_FIELDS = ("pka", "model_pka", "buried", "evol", "eloc")
INT_FIELDS = ("nvol", "nloc")
EXACT_FIELDS = ("type", "rtype", "titratable", "charge", "reported", "bridge")


def det_multiset(g, keymap=None, ndigits=None):
    """Determinants of a group record as sorted lists of (partner key, value) per type."""
    out = {}
    for t in DET_TYPES:
        lst = []
        for (k, _lab, v) in g["dets"][t]:
            if keymap is not None:
                k = keymap(k)
            lst.append((k if k is not None else -1, v))
        out[t] = sorted(lst, key=lambda kv: (str(kv[0]), kv[1]))
    return out


def compare_groups(ga, gb, tol=1e-9, keymap=None, fields=None, check_dets=True, check_labels=False):
    """Differences between two group records (b's partner keys mapped through keymap).  Returns list of strings."""
    diffs = []
    for f in (fields or NUM_FIELDS):
        if abs(ga[f] - gb[f]) > tol:
            diffs.append("%s: %r vs %r" % (f, ga[f], gb[f]))
    if fields is None:
        for f in INT_FIELDS:
            if ga[f] != gb[f]:
                diffs.append("%s: %r vs %r" % (f, ga[f], gb[f]))
        for f in EXACT_FIELDS:
            if ga[f] != gb[f]:
                diffs.append("%s: %r vs %r" % (f, ga[f], gb[f]))
    if check_labels and ga["label"] != gb["label"]:
        diffs.append("label: %r vs %r" % (ga["label"], gb["label"]))
    if check_dets:
        da, db = det_multiset(ga), det_multiset(gb, keymap)
        for t in DET_TYPES:
            la, lb = da[t], db[t]
            if len(la) != len(lb):
                diffs.append("%s determinants: %r vs %r" % (t, la, lb))
                continue
            # match by partner key, values within tol (several determinants towards one partner: sorted by value)
            for (ka, va), (kb, vb) in zip(la, lb):
                if ka != kb or abs(va - vb) > tol:
                    diffs.append("%s determinants: %r vs %r" % (t, la, lb))
                    break
    return diffs


def index_groups(conf_rec, reported_only=False):
    """(key, type) -> group record; duplicates are returned separately."""
    idx, dups = {}, []
    for g in conf_rec["groups"]:
        if reported_only and not g["reported"]:
            continue
        k = (g["key"], g["type"])
        if k in idx:
            dups.append(g)
        else:
            idx[k] = g
    return idx, dups


def compare_records(ra, rb, tol=1e-9, keymap=None, confs=None, what="all", label_map=None):
    """Compare two observation records group by group.  ``keymap`` maps b's keys into a's key space.

    Returns list of dicts {conf, key, label, diffs}."""
    out = []
    if (ra["error"] is None) != (rb["error"] is None):
        return [{"conf": None, "key": None, "label": None,
                 "diffs": ["error: %r vs %r" % (ra["error"], rb["error"])]}]
    if ra["error"] is not None:
        if ra["error"]["type"] != rb["error"]["type"]:
            return [{"conf": None, "key": None, "label": None,
                     "diffs": ["error: %r vs %r" % (ra["error"], rb["error"])]}]
        return []
    names = confs or sorted(set(ra["confs"]) | set(rb["confs"]))
    for c in names:
        ca, cb = ra["confs"].get(c), rb["confs"].get(c)
        if ca is None or cb is None:
            out.append({"conf": c, "key": None, "label": None, "diffs": ["conformation missing on one side"]})
            continue
        ia, _ = index_groups(ca)
        ib_raw, _ = index_groups(cb)
        ib = {}
        for (k, t), g in ib_raw.items():
            kk = keymap(k) if keymap is not None else k
            ib[(kk, t)] = g
        for k in sorted(set(ia) | set(ib), key=str):
            ga, gb = ia.get(k), ib.get(k)
            if ga is None or gb is None:
                g = ga or gb
                out.append({"conf": c, "key": k[0], "label": g["label"],
                            "diffs": ["group %s present only in %s" % (g["label"], "first" if ga else "second")]})
                continue
            d = compare_groups(ga, gb, tol=tol, keymap=keymap)
            if d:
                out.append({"conf": c, "key": k[0], "label": ga["label"], "diffs": d})
    return out
