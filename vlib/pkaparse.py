"""Fixed-column parser of the .pka text written by propka (independent of the code that renders it)."""
import re

LINE = "-" * 104
DET_PAD = "    0.00 XXX   0 X"


def parse(text):
    """Return dict with determinant groups, summary rows, folding rows/lines, charge rows, pI line."""
    lines = text.split("\n")
    out = {"det_groups": [], "summary": [], "folding": [], "charge": [], "pi": None, "optimum": None,
           "range80": None, "stability": None, "coupled_note": False, "errors": []}
    # ---- determinant section: between the determinant header (4th line starting with '---------  -----') and the
    # summary line of 104 dashes
    try:
        hdr = max(i for i, l in enumerate(lines) if l.startswith("---------  -----   ------   ---------"))
    except ValueError:
        out["errors"].append("no determinant header")
        return out
    i = hdr + 1
    cur = None
    while i < len(lines) and lines[i] != LINE:
        l = lines[i]
        i += 1
        if l.startswith("Coupled residues") or l.startswith("or -d option"):
            out["coupled_note"] = True
            continue
        if not l.strip():
            cur = None
            continue
        label = l[:9]
        rest = l[9:]
        if cur is None:
            m = re.match(r" ([ \-\d]{3}\.\d\d)([* ]) +(-?\d+) % +(-?\d+\.\d\d) +(-?\d+) +(-?\d+\.\d\d) +(-?\d+)", rest)
            if not m:
                out["errors"].append("unparsed determinant row: %r" % l)
                continue
            cur = {"label": label, "pka": m.group(1).strip(), "star": m.group(2) == "*", "buried": int(m.group(3)),
                   "evol": m.group(4), "nvol": int(m.group(5)), "eloc": m.group(6), "nloc": int(m.group(7)),
                   "rows": []}
            out["det_groups"].append(cur)
            tail = rest[m.end():]
        else:
            if label != cur["label"]:
                out["errors"].append("continuation row label %r != %r" % (label, cur["label"]))
            tail = rest[40:]
        cells = [tail[k:k + 18] for k in range(0, 54, 18)]
        row = []
        for cell in cells:
            if cell == DET_PAD:
                row.append(None)
            else:
                row.append((cell[:8].strip(), cell[9:18]))
        cur["rows"].append(row)
    # ---- summary
    try:
        s0 = lines.index("SUMMARY OF THIS PREDICTION")
    except ValueError:
        out["errors"].append("no summary")
        return out
    i = s0 + 2
    while i < len(lines) and lines[i] != LINE:
        l = lines[i]
        i += 1
        if not l.strip():
            continue
        # "   {label:>9s} {pka:8.2f} {model:10.2f} {type:>18s}   {penalty}"
        label = l[3:12]
        m = re.match(r" +(-?\d+\.\d\d) +(-?\d+\.\d\d)(.*)$", l[12:])
        if not m:
            out["errors"].append("unparsed summary row: %r" % l)
            continue
        out["summary"].append({"label": label, "pka": m.group(1), "model_pka": m.group(2),
                               "rest": m.group(3).strip()})
    # ---- folding section
    for j, l in enumerate(lines):
        if l.startswith("Free energy of"):
            out["folding_header"] = l
            k = j + 1
            while k < len(lines) and lines[k].strip():
                m = re.match(r"^ *(-?\d+\.\d\d) +(-?\d+\.\d\d)$", lines[k])
                if m:
                    out["folding"].append((m.group(1), m.group(2)))
                else:
                    out["errors"].append("unparsed folding row %r" % lines[k])
                k += 1
        elif l.startswith("The pH of optimum stability is"):
            m = re.match(r"The pH of optimum stability is +(-?\d+\.\d) for which the free energy is +(-?\d+\.\d) kcal", l)
            out["optimum"] = (m.group(1), m.group(2)) if m else l
        elif l.startswith("Could not determine pH optimum"):
            out["optimum"] = None
        elif l.startswith("The free energy is within 80 % of maximum"):
            m = re.match(r".*at pH +(-?\d+\.\d) to +(-?\d+\.\d)", l)
            out["range80"] = (m.group(1), m.group(2)) if m else l
        elif l.startswith("The free energy is negative in the range"):
            m = re.match(r".*range +(-?\d+\.\d) - +(-?\d+\.\d)", l)
            out["stability"] = (m.group(1), m.group(2)) if m else l
        elif l.startswith("    pH  unfolded  folded"):
            k = j + 1
            while k < len(lines):
                m = re.match(r"^ *(-?\d+\.\d\d) +(-?\d+\.\d\d) +(-?\d+\.\d\d)$", lines[k])
                if not m:
                    break
                out["charge"].append((m.group(1), m.group(2), m.group(3)))
                k += 1
        elif l.startswith("The pI is"):
            m = re.match(r"The pI is +(-?\d+\.\d\d) \(folded\) and +(-?\d+\.\d\d) \(unfolded\)", l)
            out["pi"] = (m.group(1), m.group(2)) if m else l
    return out


def is_rounding_of(printed, value, decimals):
    """True if ``printed`` (string) is a correct rounding of ``value`` to ``decimals`` places (ties either way)."""
    return abs(float(printed) - value) <= 0.5 * 10 ** (-decimals) + 1e-9
