"""Harness-side minimisation of failing structure cases (ddmin over residues).

The quick tier runs Hypothesis without its shrink phase; instead the explicit failing case is reduced here by deleting
residues while the same oracle clause keeps failing, with a fixed budget of oracle executions.  A module opts in with

    REDUCE_KEYS = ["pdb"]                      # one PDB text
    REDUCE_KEYS = [["pdb", "relabelled"]]      # texts aligned atom by atom (same records in the same order)
    REDUCE_KEYS = ["part_a", "part_b"]         # independent texts, reduced one after the other
"""
from vlib import pdbio
from vlib.pdbio import Atom

BUDGET = 70


def _residue_chunks(text):
    """List of lists of atom indices, one per residue (consecutive atoms sharing model/chain/number/icode/name)."""
    entries = pdbio.parse(text)
    chunks, key, i = [], None, 0
    for e in entries:
        if not isinstance(e, Atom):
            key = None
            continue
        k = (e.model, e.chain, e.resnum, e.icode, e.resn)
        if k != key:
            chunks.append([])
            key = k
        chunks[-1].append(i)
        i += 1
    return chunks


def _delete(text, drop):
    out, i = [], 0
    for e in pdbio.parse(text):
        if isinstance(e, Atom):
            if i not in drop:
                out.append(e)
            i += 1
        else:
            out.append(e)
    return pdbio.write(out)


def _natoms(text):
    return len(pdbio.atoms_of(pdbio.parse(text)))


def reduce_case(case, keys, fails, budget=BUDGET):
    """Return a smaller case for which ``fails(case)`` is still true (or the case itself)."""
    used = [0]

    def test(c):
        if used[0] >= budget:
            return False
        used[0] += 1
        try:
            return bool(fails(c))
        except Exception:
            return False

    cur = dict(case)
    for group in keys:
        group = [group] if isinstance(group, str) else list(group)
        if any(k not in cur or not isinstance(cur[k], str) for k in group):
            continue
        if len(set(_natoms(cur[k]) for k in group)) != 1:
            continue                       # not aligned atom by atom: leave this group alone
        chunks = _residue_chunks(cur[group[0]])
        n = 2
        while len(chunks) >= 2 and used[0] < budget:
            size = max(1, len(chunks) // n)
            removed = False
            for start in range(0, len(chunks), size):
                part = chunks[start:start + size]
                if len(part) == len(chunks):
                    continue
                drop = set(i for ch in part for i in ch)
                cand = dict(cur)
                for k in group:
                    cand[k] = _delete(cur[k], drop)
                if _natoms(cand[group[0]]) == 0:
                    continue
                if test(cand):
                    cur = cand
                    chunks = _residue_chunks(cur[group[0]])
                    n = max(n - 1, 2)
                    removed = True
                    break
                if used[0] >= budget:
                    break
            if not removed:
                if size == 1:
                    break
                n = min(len(chunks), n * 2)
    cur["_reduced"] = {"oracle_calls": used[0], "atoms_before": _natoms(case[(keys[0] if isinstance(keys[0], str) else keys[0][0])]),
                       "atoms_after": _natoms(cur[(keys[0] if isinstance(keys[0], str) else keys[0][0])])}
    return cur
