"""Run an atheris target (tooling interpreter python3-vt) for a fixed number of executions and report violations."""
import json
import os
import shutil
import subprocess
import tempfile
import time

ROOT = os.path.dirname(os.path.dirname(os.path.abspath(__file__)))
PYVT = "/opt/veriftools/pyvenv/bin/python"


def run_target(ctx, stage, script, runs, max_len, seed):
    """Returns list of violation payloads (dicts printed by the target after FUZZ-VIOLATION)."""
    t0 = time.time()
    st = ctx.stages.setdefault(stage, {"kind": "atheris/libFuzzer", "cases": 0, "wall_s": 0.0})
    if not os.path.exists(PYVT):
        ctx.notes[stage] = "skipped: tooling interpreter with atheris not present"
        return []
    work = tempfile.mkdtemp(prefix="vp_fuzz_")
    env = dict(os.environ)
    env["PYTHONPATH"] = "%s:%s" % (env.get("VERIF_REPO", "/repo"), ROOT)
    env.pop("PYTHONHASHSEED", None)
    env["TMPDIR"] = work                 # scratch directories of the target live (and die) inside ours
    cmd = [PYVT, os.path.join(ROOT, "fuzz", script), "-runs=%d" % runs, "-seed=%d" % (seed % 2147483647 or 1),
           "-max_len=%d" % max_len, "-print_final_stats=1", "-verbosity=0"]
    try:
        p = subprocess.run(cmd, cwd=work, env=env, stdout=subprocess.PIPE, stderr=subprocess.STDOUT, text=True)
    finally:
        pass
    out = p.stdout or ""
    found = []
    for line in out.splitlines():
        if line.startswith("FUZZ-VIOLATION "):
            try:
                found.append(json.loads(line[len("FUZZ-VIOLATION "):]))
            except ValueError:
                pass
    done = 0
    for line in out.splitlines():
        if line.startswith("stat::number_of_executed_units:"):
            done = int(line.split(":")[-1])
    if not found and p.returncode != 0:
        ctx.errors.append("%s: fuzz target exited with %s: %s" % (stage, p.returncode, out[-400:]))
    shutil.rmtree(work, ignore_errors=True)
    ctx.count(done, nontrivial=0, labels=["atheris-exec"])
    st["cases"] += done
    st["wall_s"] = round(st["wall_s"] + time.time() - t0, 1)
    return found
