"""Parameter-file variants: copies of the shipped propka.cfg with scalar lines rewritten and lines appended.

A spec is {"changes": {key: value-string}, "shift_model_pkas": float, "extra": [line, ...]}; the file name is a hash of
the spec, so one spec always maps to one path of the working directory of the shard.
"""
import hashlib
import json
import os


def shipped():
    return os.path.join(os.environ.get("VERIF_REPO", "/repo"), "propka", "propka.cfg")


def make(spec):
    spec = spec or {}
    tag = hashlib.sha1(json.dumps(spec, sort_keys=True).encode()).hexdigest()[:12]
    path = os.path.abspath("cfg_%s.cfg" % tag)
    if os.path.exists(path):
        return path
    changes = spec.get("changes") or {}
    shift = spec.get("shift_model_pkas")
    out = []
    for line in open(shipped()):
        w = line.split()
        if w and w[0] in changes:
            out.append("%s %s\n" % (w[0], changes[w[0]]))
        elif shift and len(w) >= 3 and w[0] == "model_pkas":
            out.append("model_pkas %s %.2f\n" % (w[1], float(w[2]) + shift))
        else:
            out.append(line)
    for line in spec.get("extra") or []:
        out.append(line.rstrip("\n") + "\n")
    tmp = path + ".%d" % os.getpid()
    with open(tmp, "w") as fh:
        fh.writelines(out)
    os.replace(tmp, path)
    return path


def options(spec):
    return ["-p", make(spec)] if spec else []
