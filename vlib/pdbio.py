"""Independent fixed-column PDB model, writer and reader (does not import propka).

Coordinates are integers in milli-Angstrom, printed from the integers, so every coordinate lies exactly on the
0.001 A grid and rigid grid motions are exact.
"""
import copy

COORD_MIN, COORD_MAX = -999999, 9999999          # %8.3f field
BACKBONE = ("N", "CA", "C", "O")
TERMINAL_O = ("OXT", "O''")
AMINO = ("ALA", "ARG", "ASN", "ASP", "CYS", "GLN", "GLU", "GLY", "HIS", "ILE", "LEU", "LYS", "MET", "PHE", "PRO",
         "SER", "THR", "TRP", "TYR", "VAL")


class Atom:
    __slots__ = ("rec", "serial", "name", "alt", "resn", "chain", "resnum", "icode", "x", "y", "z", "occ", "bfac",
                 "tail", "model")

    def __init__(self, rec="ATOM", serial="    1", name=" CA ", alt=" ", resn="ALA", chain="A", resnum=1, icode=" ",
                 x=0, y=0, z=0, occ="  1.00", bfac="  0.00", tail="", model=1):
        self.rec, self.serial, self.name, self.alt, self.resn, self.chain = rec, serial, name, alt, resn, chain
        self.resnum, self.icode, self.x, self.y, self.z = resnum, icode, x, y, z
        self.occ, self.bfac, self.tail, self.model = occ, bfac, tail, model

    def copy(self):
        return copy.copy(self)

    @property
    def aname(self):
        return self.name.strip()

    @property
    def xyz(self):
        return (self.x, self.y, self.z)

    @property
    def element(self):
        """Element as a PDB reader infers it from the name columns (columns 13-14, digits stripped)."""
        e = self.name[:2].strip().strip("0123456789")
        if len(self.name.strip()) == 4 and e:
            e = e[0]
        if len(e) == 2:
            e = e[0] + e[1].lower()
        return e

    @property
    def is_h(self):
        return self.element == "H"

    @property
    def resid(self):
        return (self.model, self.chain, self.resnum, self.icode)

    def line(self):
        return "%-6s%5s %4s%1s%3s %1s%4d%1s   %s%s%s%6s%6s%s\n" % (
            self.rec, self.serial, self.name, self.alt, self.resn, self.chain, self.resnum, self.icode,
            fmt_coord(self.x), fmt_coord(self.y), fmt_coord(self.z), self.occ, self.bfac, self.tail)


def fmt_coord(v):
    if not COORD_MIN <= v <= COORD_MAX:
        raise ValueError("coordinate outside the PDB field: %r" % v)
    s = "-" if v < 0 else ""
    a = abs(v)
    return ("%s%d.%03d" % (s, a // 1000, a % 1000)).rjust(8)


def parse_coord(field):
    f = field.strip()
    neg = f.startswith("-")
    if neg:
        f = f[1:]
    whole, _, frac = f.partition(".")
    frac = (frac + "000")[:3]
    v = int(whole or "0") * 1000 + int(frac)
    return -v if neg else v


def name_field(name, element=None):
    """4-column atom-name field: one-letter elements start in column 14."""
    name = name.strip()
    if len(name) >= 4:
        return name[:4]
    if element is not None and len(element) == 2:
        return name.ljust(4)
    return (" " + name).ljust(4)


def parse(text):
    """Return a list of entries: Atom objects for ATOM/HETATM records, raw strings (with newline) otherwise."""
    out = []
    model = 1
    for raw in text.splitlines(True):
        tag = raw[:6]
        if tag == "MODEL ":
            try:
                model = int(raw[6:])
            except ValueError:
                pass
        if tag in ("ATOM  ", "HETATM"):
            line = raw.rstrip("\n")
            line = line.ljust(66)
            out.append(Atom(rec=tag.strip(), serial=line[6:11], name=line[12:16], alt=line[16], resn=line[17:20],
                            chain=line[21], resnum=int(line[22:26]), icode=line[26],
                            x=parse_coord(line[30:38]), y=parse_coord(line[38:46]), z=parse_coord(line[46:54]),
                            occ=line[54:60], bfac=line[60:66], tail=line[66:], model=model))
        else:
            out.append(raw if raw.endswith("\n") else raw + "\n")
    return out


def write(entries):
    return "".join(e.line() if isinstance(e, Atom) else e for e in entries)


def atoms_of(entries):
    return [e for e in entries if isinstance(e, Atom)]


def renumber_serials(entries, start=1):
    n = start
    for e in entries:
        if isinstance(e, Atom):
            e.serial = "%5d" % n if n < 100000 else "*****"
            n += 1
    return entries


def residues(entries):
    """Group consecutive atom records into residues: list of (resid+(resn,), [atoms]).  Non-atom records break."""
    res, cur, key = [], None, None
    for e in entries:
        if not isinstance(e, Atom):
            key = None
            continue
        k = (e.model, e.chain, e.resnum, e.icode, e.resn)
        if k != key:
            cur = []
            res.append((k, cur))
            key = k
        cur.append(e)
    return res


def sq_dist(a, b):
    dx, dy, dz = a.x - b.x, a.y - b.y, a.z - b.z
    return dx * dx + dy * dy + dz * dz


# ---- rigid grid motions -----------------------------------------------------------------------------------------

def _perm_parity(p):
    inv = sum(1 for i in range(3) for j in range(i + 1, 3) if p[i] > p[j])
    return -1 if inv % 2 else 1


def proper_rotations():
    """The 24 proper rotations mapping the grid onto itself: (perm, signs) with x'_i = signs[i] * x[perm[i]]."""
    import itertools
    out = []
    for perm in itertools.permutations(range(3)):
        for signs in itertools.product((1, -1), repeat=3):
            if _perm_parity(perm) * signs[0] * signs[1] * signs[2] == 1:
                out.append((perm, signs))
    return out


ROTATIONS = proper_rotations()


def apply_motion(xyz, rot, trans):
    perm, signs = rot
    return tuple(signs[i] * xyz[perm[i]] + trans[i] for i in range(3))


def invert_motion(xyz, rot, trans):
    perm, signs = rot
    out = [0, 0, 0]
    for i in range(3):
        out[perm[i]] = signs[i] * (xyz[i] - trans[i])
    return tuple(out)


def move(entries, rot=ROTATIONS[0], trans=(0, 0, 0)):
    out = []
    for e in entries:
        if isinstance(e, Atom):
            e = e.copy()
            e.x, e.y, e.z = apply_motion((e.x, e.y, e.z), rot, trans)
        out.append(e)
    return out


def bbox(entries):
    ats = atoms_of(entries)
    xs, ys, zs = [a.x for a in ats], [a.y for a in ats], [a.z for a in ats]
    return (min(xs), min(ys), min(zs)), (max(xs), max(ys), max(zs))
