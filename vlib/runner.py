"""Common driver for all property checks.

    ./check <ID> --tier quick|thorough        run the check, rewrite evidence/<ID>.json
    ./check <ID> --replay <file>              re-execute one saved case without Hypothesis

A check is a pure function of (tree under $VERIF_REPO, VERIF_SEED, tier).  The case budget of every stage is split
over NSHARDS worker processes; worker s runs Hypothesis with seed H(VERIF_SEED, property, stage, s).

Exit codes: 0 held on everything explored, 1 violation (line ``VIOLATION property=<id> replay=<path>``), 2 harness
error (never reported as a violation).
"""
import argparse
import collections
import hashlib
import importlib
import json
import math
import multiprocessing
import os
import shutil
import sys
import tempfile
import time
import traceback

ROOT = os.path.dirname(os.path.dirname(os.path.abspath(__file__)))
NSHARDS = int(os.environ.get("VERIF_SHARDS", "16"))
MAX_SAMPLES = 8


class Violation(Exception):
    """Raised by a property body when an oracle clause fails on a case (after known findings were filtered)."""

    def __init__(self, case, violations):
        super().__init__(violations[0].get("clause", "violation") if violations else "violation")
        self.case = case
        self.violations = violations


class HarnessError(Exception):
    pass


def case_hash(case):
    blob = json.dumps(case, sort_keys=True, default=str).encode()
    return hashlib.sha1(blob).hexdigest()


def hseed(*parts):
    h = hashlib.sha256("/".join(str(p) for p in parts).encode()).digest()
    return int.from_bytes(h[:8], "big")


class Ctx:
    """Per-shard context handed to ``props.<id>.run_shard``."""

    def __init__(self, prop, tier, seed, shard, nshards, scale=1.0):
        self.prop, self.tier, self.seed, self.shard, self.nshards, self.scale = prop, tier, seed, shard, nshards, scale
        self.evaluations = 0
        self.nontrivial = set()
        self.nontrivial_by_construction = 0
        self.labels = collections.Counter()
        self.samples = []
        self.known = collections.Counter()
        self.violations = []
        self.errors = []
        self.stages = {}
        self.notes = {}
        self._sample_seen = 0
        self._last_violation = None
        from vlib import findings
        self._findings = findings

    # ---- budgets ---------------------------------------------------------------------------------------------
    def budget(self, total):
        """Number of cases this shard runs out of a stage total (scaled by VERIF_SCALE)."""
        return max(1, int(math.ceil(total * self.scale / self.nshards)))

    def my_slice(self, n):
        """Indices of an enumeration of size n handled by this shard (round robin -> every shard sees all regions)."""
        return range(self.shard, n, self.nshards)

    # ---- accounting ------------------------------------------------------------------------------------------
    def account(self, case, violations, info=None, hashed=True):
        """Count one oracle execution.  Filters known findings; raises Violation when something is left."""
        info = info or {}
        self.evaluations += 1
        for lab in info.get("labels", ()):
            self.labels[lab] += 1
        if info.get("nontrivial"):
            if hashed:
                self.nontrivial.add(case_hash(case)[:16])
            else:
                self.nontrivial_by_construction += 1
            self.labels["nontrivial"] += 1
        if "sample" in info:
            self._sample_seen += 1
            # prefer non-trivial cases, thinned so that samples come from the whole run
            if info.get("nontrivial"):
                if len(self.samples) < MAX_SAMPLES and (self._sample_seen % 23 == 1 or len(self.samples) < 2):
                    self.samples.append(info["sample"])
            elif not self.samples:
                self.samples.append(info["sample"])
        left = []
        for v in violations:
            fid = self._findings.match(self.prop, case, v)
            if fid:
                self.known[fid] += 1
            else:
                left.append(v)
        if left:
            self._last_violation = Violation(case, left)
            raise self._last_violation

    def count(self, n=1, nontrivial=0, labels=()):
        """Bulk accounting for exhaustive loops whose cases are distinct by construction."""
        self.evaluations += n
        self.nontrivial_by_construction += nontrivial
        for lab in labels:
            self.labels[lab] += n

    # ---- Hypothesis stage ------------------------------------------------------------------------------------
    def hypothesis_stage(self, stage, strategy, body, total, shrink=None):
        """Run ``body(value)`` on ``budget(total)`` values drawn from ``strategy``.

        ``body`` must call ``ctx.account`` (which raises Violation).  Any other exception escaping ``body`` is a
        harness error.  Returns True if the stage completed without violation."""
        import hypothesis
        from hypothesis import given, settings, HealthCheck, Phase
        n = self.budget(total)
        if shrink is None:
            shrink = (self.tier == "thorough")
        phases = [Phase.explicit, Phase.reuse, Phase.generate] + ([Phase.shrink] if shrink else [])
        t0 = time.time()
        ev0 = self.evaluations

        @hypothesis.seed(hseed(self.seed, self.prop, stage, self.shard))
        @settings(max_examples=n, database=None, deadline=None, derandomize=False, report_multiple_bugs=False,
                  suppress_health_check=[HealthCheck.too_slow, HealthCheck.data_too_large,
                                         HealthCheck.large_base_example],
                  phases=phases, verbosity=hypothesis.Verbosity.quiet)
        @given(strategy)
        def test(value):
            body(value)

        ok = True
        try:
            test()
        except Violation as v:
            ok = False
            self.record_violation(stage, v)
        except hypothesis.errors.Flaky:
            # the case failed once and passed when Hypothesis replayed it: the outcome is not a function of the case.
            # The violating case is saved all the same (a result that changes between two executions of one input is
            # itself an irreproducibility); the replay decides whether it persists.
            ok = False
            lv = getattr(self, "_last_violation", None)
            if lv is not None:
                for x in lv.violations:
                    x["detail"] = "[flaky: passed on Hypothesis's own replay] " + str(x.get("detail"))
                self.record_violation(stage, lv)
            else:
                self.errors.append("stage %s: flaky failure without a recorded violation" % stage)
        except (hypothesis.errors.FailedHealthCheck, hypothesis.errors.Unsatisfiable) as e:
            self.errors.append("stage %s: generator health check: %r" % (stage, e))
        except Exception:
            self.errors.append("stage %s: harness error:\n%s" % (stage, traceback.format_exc()))
        st = self.stages.setdefault(stage, {"kind": "hypothesis", "cases": 0, "wall_s": 0.0})
        st["cases"] += self.evaluations - ev0
        st["wall_s"] = round(st["wall_s"] + time.time() - t0, 2)
        return ok

    def loop_stage(self, stage, items, body, exhaustive=False):
        """Run ``body(item)`` over explicit items (enumeration).  Stops at the first violation."""
        t0 = time.time()
        ev0 = self.evaluations
        ok = True
        try:
            for item in items:
                body(item)
        except Violation as v:
            ok = False
            self.record_violation(stage, v)
        except Exception:
            self.errors.append("stage %s: harness error:\n%s" % (stage, traceback.format_exc()))
        st = self.stages.setdefault(stage, {"kind": "enumeration", "cases": 0, "wall_s": 0.0})
        st["exhaustive"] = bool(exhaustive)
        st["cases"] += self.evaluations - ev0
        st["wall_s"] = round(st["wall_s"] + time.time() - t0, 2)
        return ok

    def record_violation(self, stage, v):
        case = v.case
        mod = importlib.import_module("props." + self.prop.lower())
        keys = getattr(mod, "REDUCE_KEYS", None)
        if keys and hasattr(mod, "replay"):
            # harness-side minimisation (ddmin over residues) with a fixed budget of oracle executions
            try:
                from vlib import reduce as _reduce
                clause = v.violations[0].get("clause")

                def fails(c):
                    for x in mod.replay(c):
                        if x.get("clause") == clause and not self._findings.match(self.prop, c, x):
                            return True
                    return False
                case = _reduce.reduce_case(case, keys, fails)
            except Exception:
                self.notes.setdefault("reduce_errors", []).append(traceback.format_exc()[-400:])
        rec = {"property": self.prop, "stage": stage, "case": case, "violations": v.violations[:5],
               "seed": self.seed, "tier": self.tier}
        rdir = os.path.join(ROOT, "replays", self.prop)
        os.makedirs(rdir, exist_ok=True)
        path = os.path.join(rdir, case_hash(case)[:16] + ".json")
        with open(path, "w") as fh:
            json.dump(rec, fh, indent=1, default=str)
        self.violations.append({"replay": os.path.relpath(path, ROOT), "stage": stage,
                                "clause": v.violations[0].get("clause"),
                                "detail": str(v.violations[0].get("detail"))[:300]})

    def result(self):
        return {"evaluations": self.evaluations, "nontrivial": sorted(self.nontrivial),
                "nontrivial_by_construction": self.nontrivial_by_construction, "labels": dict(self.labels),
                "samples": self.samples, "known": dict(self.known), "violations": self.violations,
                "errors": self.errors, "stages": self.stages, "notes": self.notes}


def _worker(prop, tier, seed, shard, nshards, scale, outdir):
    work = tempfile.mkdtemp(prefix="vp_%s_%d_" % (prop, shard))
    res = None
    try:
        os.chdir(work)
        import logging
        import warnings
        logging.disable(logging.CRITICAL)       # propka logs through logging; individual checks re-enable capture
        warnings.filterwarnings("ignore", message="Generating overly large repr")
        ctx = Ctx(prop, tier, seed, shard, nshards, scale)
        mod = importlib.import_module("props." + prop.lower())
        mod.run_shard(ctx)
        res = ctx.result()
    except Exception:
        res = {"errors": ["worker %d crashed:\n%s" % (shard, traceback.format_exc())]}
    finally:
        os.chdir("/")
        shutil.rmtree(work, ignore_errors=True)
    with open(os.path.join(outdir, "shard_%d.json" % shard), "w") as fh:
        json.dump(res, fh, default=str)


def run_check(prop, tier, seed):
    t0 = time.time()
    mod = importlib.import_module("props." + prop.lower())
    from vlib import findings
    scale = float(os.environ.get("VERIF_SCALE", "1"))
    nshards = int(getattr(mod, "NSHARDS", NSHARDS))
    outdir = tempfile.mkdtemp(prefix="vp_out_%s_" % prop)
    if hasattr(mod, "prepare"):
        # work shared by all shards (e.g. reference runs in fresh interpreters); inherited through fork
        mod.prepare(tier, seed, outdir)
    mp = multiprocessing.get_context("fork")
    procs = []
    for s in range(nshards):
        p = mp.Process(target=_worker, args=(prop, tier, seed, s, nshards, scale, outdir))
        p.start()
        procs.append(p)
    for p in procs:
        p.join()
    merged = {"evaluations": 0, "nontrivial": set(), "nbc": 0, "labels": collections.Counter(), "samples": [],
              "known": collections.Counter(), "violations": [], "errors": [], "stages": {}, "notes": {}}
    for s in range(nshards):
        path = os.path.join(outdir, "shard_%d.json" % s)
        if not os.path.exists(path):
            merged["errors"].append("worker %d produced no result (exit code %s)" % (s, procs[s].exitcode))
            continue
        r = json.load(open(path))
        merged["evaluations"] += r.get("evaluations", 0)
        merged["nontrivial"].update(r.get("nontrivial", []))
        merged["nbc"] += r.get("nontrivial_by_construction", 0)
        merged["labels"].update(r.get("labels", {}))
        merged["known"].update(r.get("known", {}))
        merged["violations"].extend(r.get("violations", []))
        merged["errors"].extend(r.get("errors", []))
        for k, v in r.get("notes", {}).items():
            merged["notes"].setdefault(k, v)
        for name, st in r.get("stages", {}).items():
            m = merged["stages"].setdefault(name, {"kind": st.get("kind"), "cases": 0, "wall_s": 0.0})
            m["cases"] += st.get("cases", 0)
            m["wall_s"] = round(max(m["wall_s"], st.get("wall_s", 0.0)), 2)
            if "exhaustive" in st:
                m["exhaustive"] = st["exhaustive"] and m.get("exhaustive", True)
        take = max(1, MAX_SAMPLES // nshards)
        merged["samples"].extend(r.get("samples", [])[-take:])
    shutil.rmtree(outdir, ignore_errors=True)

    # known findings of this property: announce, replay witnesses (informational)
    kf_info = {}
    for f in findings.for_property(prop):
        if f["status"] == "open":
            print("KNOWN-FINDING: property=%s %s" % (prop, f["text"]))
            kf_info[f["id"]] = {"status": "open", "cases_excluded_this_run": merged["known"].get(f["id"], 0)}
        else:
            kf_info[f["id"]] = {"status": f["status"], "commit": f.get("commit")}
    extra = {}
    if hasattr(mod, "finalize"):
        try:
            extra = mod.finalize(tier, merged) or {}
        except Exception:
            merged["errors"].append("finalize failed:\n" + traceback.format_exc())

    distinct = len(merged["nontrivial"]) + merged["nbc"]
    exhaustive = bool(merged["stages"]) and all(st.get("exhaustive") for st in merged["stages"].values())
    coverage = {
        "evaluations": merged["evaluations"],
        "distinct_nontrivial": distinct,
        "rule": getattr(mod, "RULE", ""),
        "samples": merged["samples"][:MAX_SAMPLES] or ["(no sample recorded)"],
        "class_histogram": dict(sorted(merged["labels"].items())),
        "stages": merged["stages"],
        "known_findings": kf_info,
        "shards": nshards,
        "harness_errors": merged["errors"][:5],
    }
    if exhaustive:
        coverage["exhaustive"] = True
    coverage.update(extra)
    coverage.update(merged["notes"])
    ev = {"property_id": prop, "tier": tier, "seed": seed, "level": getattr(mod, "LEVEL", "exploration"),
          "coverage": coverage, "assumptions": list(getattr(mod, "ASSUMPTIONS", [])),
          "wall_s": round(time.time() - t0, 2), "violations": len(merged["violations"])}
    # evidence is only written by full-budget runs against /repo itself (scratch trees and scaled-down trial runs
    # never touch it)
    real_repo = os.path.realpath(os.environ.get("VERIF_REPO", "/repo")) == os.path.realpath("/repo")
    if not os.environ.get("VERIF_NO_EVIDENCE") and real_repo and scale == 1.0:
        os.makedirs(os.path.join(ROOT, "evidence"), exist_ok=True)
        with open(os.path.join(ROOT, "evidence", prop + ".json"), "w") as fh:
            json.dump(ev, fh, indent=1, default=str)
            fh.write("\n")

    print("%s tier=%s seed=%d evaluations=%d distinct_nontrivial=%d wall=%.1fs" % (
        prop, tier, seed, merged["evaluations"], distinct, time.time() - t0))
    for name, st in merged["stages"].items():
        print("  stage %-28s cases=%-9d wall=%.1fs%s" % (name, st["cases"], st["wall_s"],
                                                          " exhaustive" if st.get("exhaustive") else ""))
    if os.environ.get("VERIF_PRINT_LABELS"):
        print("  classes " + json.dumps(dict(sorted(merged["labels"].items()))))
    seen = set()
    for v in merged["violations"]:
        if v["replay"] in seen:
            continue
        seen.add(v["replay"])
        if len(seen) > 6:
            continue
        print("VIOLATION property=%s replay=%s" % (prop, v["replay"]))
        print("  stage=%s clause=%s detail=%s" % (v["stage"], v["clause"], v["detail"]))
    if len(seen) > 6:
        print("  (%d more violating cases saved under replays/%s/)" % (len(seen) - 6, prop))
    if merged["violations"]:
        return 1
    if merged["errors"]:
        for e in merged["errors"][:2]:
            print("HARNESS-ERROR: " + e[-1500:], file=sys.stderr)
        print("HARNESS-ERROR: %d shard errors in total" % len(merged["errors"]), file=sys.stderr)
        return 2
    if merged["evaluations"] == 0:
        print("HARNESS-ERROR: nothing was evaluated", file=sys.stderr)
        return 2
    return 0


def run_replay(prop, path):
    mod = importlib.import_module("props." + prop.lower())
    from vlib import findings
    rec = json.load(open(path))
    case = rec["case"] if "case" in rec else rec
    work = tempfile.mkdtemp(prefix="vp_replay_")
    cwd = os.getcwd()
    try:
        os.chdir(work)
        import logging
        logging.disable(logging.CRITICAL)
        violations = mod.replay(case)
    finally:
        os.chdir(cwd)
        shutil.rmtree(work, ignore_errors=True)
    left = [v for v in violations if not findings.match(prop, case, v)]
    for v in violations:
        print("  clause=%s detail=%s%s" % (v.get("clause"), str(v.get("detail"))[:400],
                                          "" if v in left else "  [known finding]"))
    if left:
        print("VIOLATION property=%s replay=%s" % (prop, path))
        return 1
    print("replay: no violation (%d known-finding matches)" % (len(violations) - len(left)))
    return 0


def main(argv=None):
    ap = argparse.ArgumentParser()
    ap.add_argument("prop")
    ap.add_argument("--tier", default=os.environ.get("VERIF_TIER", "quick"), choices=["quick", "thorough"])
    ap.add_argument("--replay")
    args = ap.parse_args(argv)
    prop = args.prop.upper()
    try:
        seed = int(os.environ.get("VERIF_SEED", "1"))
    except ValueError:
        seed = 1
    try:
        if args.replay:
            return run_replay(prop, args.replay)
        return run_check(prop, args.tier, seed)
    except Exception:
        traceback.print_exc()
        return 2


if __name__ == "__main__":
    sys.exit(main())
