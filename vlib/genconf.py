"""Generators of multi-conformation inputs (MODEL records and alternate-location tags) for C02/C08/C03."""
from hypothesis import strategies as st

from vlib import gen, pdbio
from vlib.pdbio import Atom

SWAPS = {"ASP": ["ALA", "ASN", "GLU"], "GLU": ["ALA", "GLN", "ASP"], "CYS": ["SER", "ALA"], "LYS": ["ARG", "ALA"],
         "ARG": ["LYS", "ALA"], "HIS": ["ALA", "TYR"], "TYR": ["PHE", "HIS"], "SER": ["CYS", "ALA"],
         "ALA": ["ASP", "CYS", "LYS"], "GLY": ["ASP", "ALA"], "THR": ["ASP", "ALA"], "ASN": ["ASP"], "GLN": ["GLU"]}


def _jitter(draw, atoms, used, frac_num=3, maxd=350):
    """Displace a drawn subset of atoms by small integer offsets (keeps coordinates unique)."""
    for a in atoms:
        if draw(st.integers(0, frac_num)) == 0:
            a.x += draw(st.integers(-maxd, maxd))
            a.y += draw(st.integers(-maxd, maxd))
            a.z += draw(st.integers(-maxd, maxd))
        while a.xyz in used:
            a.x += 1
        used.add(a.xyz)


@st.composite
def multi_conformation(draw, max_res=24, allow_mutants=True, allow_missing=True, allow_hetero=False,
                       kinds=("models", "altloc", "identical-models", "single")):
    """Return (text, info): info has labels and a description of what differs between conformations."""
    s = draw(gen.structures(max_res=max_res, allow_hetero=allow_hetero, allow_truncation=False, always_ter=True,
                            allow_icode=False))
    body = [e for e in s.entries if isinstance(e, Atom) or e.startswith("TER")]
    kind = draw(st.sampled_from(list(kinds)))
    labels = ["conf:" + kind]
    used = {a.xyz for a in pdbio.atoms_of(body)}
    residues = pdbio.residues(body)
    if kind == "single":
        return pdbio.write(body), {"labels": labels, "structure": s}
    if kind in ("models", "identical-models"):
        nmod = draw(st.integers(2, 3 if kind == "models" else 4))
        out = []
        start = draw(st.sampled_from([1, 1, 0, 5]))
        for m in range(nmod):
            copy = [e.copy() if isinstance(e, Atom) else e for e in body]
            if kind == "models" and m > 0:
                _jitter(draw, pdbio.atoms_of(copy), used)
                if allow_mutants and draw(st.integers(0, 2)) == 0:
                    copy = _mutate_one(draw, copy, used, labels)
                if allow_missing and draw(st.integers(0, 2)) == 0:
                    copy = _drop_some(draw, copy, labels)
            elif m > 0:
                # identical models must still have identical coordinates: that is the point of the corollary
                pass
            out.append("MODEL     %4d\n" % (start + m))
            out.extend(copy)
            out.append("ENDMDL\n")
        return pdbio.write(out), {"labels": labels, "structure": s, "nmodels": nmod}
    # alternate locations inside one model
    tags = draw(st.sampled_from([("A", "B"), ("A", "B", "C"), ("B", "C"), ("1", "2"), ("A", "2")]))
    labels.append("tags:" + "".join(tags))
    out = []
    nres = len(residues)
    chosen = set()
    for _ in range(draw(st.integers(1, min(4, nres)))):
        chosen.add(draw(st.integers(0, nres - 1)))
    ri = -1
    prev_key = None
    res_of = {}
    for key, ats in residues:
        ri += 1
        for a in ats:
            res_of[id(a)] = ri
    i = 0
    entries = body
    emitted = set()
    for e in entries:
        if not isinstance(e, Atom):
            out.append(e)
            continue
        r = res_of[id(e)]
        if r in emitted:
            continue
        emitted.add(r)
        key, ats = residues[r]
        if r not in chosen or ats[0].rec != "ATOM":
            out.extend(a.copy() for a in ats)
            continue
        mode = draw(st.sampled_from(["partial", "partial", "whole", "mutant" if allow_mutants else "whole"]))
        if mode == "mutant":
            labels.append("altloc-mutant")
            # each tag carries a complete residue, one of them of another type
            other = draw(st.sampled_from(SWAPS.get(ats[0].resn, ["ALA"])))
            which = draw(st.integers(0, len(tags) - 1))
            for ti, tag in enumerate(tags):
                if ti == which:
                    new = gen.mutate_residue(ats, other, draw(st.integers(0, 20))) or [a.copy() for a in ats]
                else:
                    new = [a.copy() for a in ats]
                if ti > 0:
                    _jitter(draw, new, used, frac_num=0, maxd=250)
                else:
                    for a in new:
                        while a.xyz in used and ti == which:
                            a.x += 1
                        used.add(a.xyz)
                for a in new:
                    a.alt = tag
                out.extend(new)
        else:
            side = [a for a in ats if a.aname not in pdbio.BACKBONE] if mode == "partial" else list(ats)
            if not side:
                side = list(ats)
            sel = set(id(a) for a in side)
            for a in ats:
                if id(a) not in sel:
                    out.append(a.copy())
            for ti, tag in enumerate(tags):
                grp = [a.copy() for a in ats if id(a) in sel]
                if ti > 0:
                    _jitter(draw, grp, used, frac_num=0, maxd=300)
                    if allow_missing and draw(st.integers(0, 3)) == 0 and len(grp) > 1:
                        del grp[draw(st.integers(0, len(grp) - 1))]
                        labels.append("altloc-missing-atom")
                for a in grp:
                    a.alt = tag
                out.extend(grp)
            labels.append("altloc-" + mode)
    return pdbio.write(out), {"labels": labels, "structure": s, "tags": tags}


def _mutate_one(draw, entries, used, labels):
    res = pdbio.residues(entries)
    cand = [(k, ats) for k, ats in res if ats[0].rec == "ATOM" and ats[0].resn in SWAPS]
    if not cand:
        return entries
    key, ats = cand[draw(st.integers(0, len(cand) - 1))]
    other = draw(st.sampled_from(SWAPS[ats[0].resn]))
    new = gen.mutate_residue(ats, other, draw(st.integers(0, 20)))
    if new is None:
        return entries
    for a in new:
        while a.xyz in used:
            a.x += 1
        used.add(a.xyz)
    ids = set(id(a) for a in ats)
    out = []
    done = False
    for e in entries:
        if isinstance(e, Atom) and id(e) in ids:
            if not done:
                out.extend(new)
                done = True
            continue
        out.append(e)
    labels.append("model-mutant")
    return out


def _drop_some(draw, entries, labels):
    atoms = pdbio.atoms_of(entries)
    if len(atoms) < 3:
        return entries
    how = draw(st.sampled_from(["atoms", "residue"]))
    drop = set()
    if how == "atoms":
        for _ in range(draw(st.integers(1, 4))):
            drop.add(id(atoms[draw(st.integers(0, len(atoms) - 1))]))
        labels.append("model-missing-atoms")
    else:
        res = pdbio.residues(entries)
        key, ats = res[draw(st.integers(0, len(res) - 1))]
        drop = set(id(a) for a in ats)
        labels.append("model-missing-residue")
    return [e for e in entries if not (isinstance(e, Atom) and id(e) in drop)]
