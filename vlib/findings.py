"""Known-findings protocol.

``known_findings.json`` is committed and never written at run time.  An *open* entry names a predicate (registered
here under the entry's id) over (case, violation): a failing case that matches is counted and excluded, anything
else is reported.  *fixed* entries suppress nothing; their witnesses are regression cases run by the checks.
"""
import json
import os

ROOT = os.path.dirname(os.path.dirname(os.path.abspath(__file__)))
_CACHE = None
PREDICATES = {}


def load():
    global _CACHE
    if _CACHE is None:
        with open(os.path.join(ROOT, "known_findings.json")) as fh:
            _CACHE = json.load(fh)["findings"]
    return _CACHE


def for_property(prop):
    return [f for f in load() if prop == f["property"] or prop in f.get("also_properties", [])]


def predicate(fid):
    def deco(fn):
        PREDICATES[fid] = fn
        return fn
    return deco


def match(prop, case, violation):
    """Return the id of the open finding that explains this violation, or None."""
    for f in for_property(prop):
        if f["status"] != "open":
            continue
        fn = PREDICATES.get(f["id"])
        if fn is None:
            continue
        try:
            if fn(prop, case, violation):
                return f["id"]
        except Exception:
            continue
    return None


# ---------------------------------------------------------------------------------------------------------------
# Predicates of the open findings.  A violation dict carries "clause" and, for structure-level checks, "sig":
# a root-cause signature computed by the property's own oracle from the *input* (not from the code under test).

@predicate("F5")
def _f5(prop, case, violation):
    # insertion-code twins: the oracle marks a violation with sig "icode-twin" only when every differing group lies
    # in the interaction neighbourhood of a residue pair sharing chain+number and differing in insertion code.
    return violation.get("sig") == "icode-twin"


@predicate("F8")
def _f8(prop, case, violation):
    # C-terminus whose OXT has more than one carbon within bonding distance (bond-list order decides which is used)
    return violation.get("sig") == "cterm-ambiguous-carbon"


@predicate("F11")
def _f11(prop, case, violation):
    # hydrogens on an atom with exactly one heavy neighbour (computed from the input by the reference bond rule)
    return violation.get("sig") == "free-rotamer"


@predicate("F16")
def _f16(prop, case, violation):
    # --protonate-all vs default next to an incomplete amino-acid residue (computed from the input with the templates)
    return violation.get("sig") == "incomplete-residue-protonation"


@predicate("F19")
def _f19(prop, case, violation):
    # COO-ARG exception pair whose angle partner comes from a bond list (keep-protons round trips)
    return violation.get("sig") == "coo-arg-bond-order"


@predicate("F21")
def _f21(prop, case, violation):
    # every differing group is a ligand group of a hetero residue whose set of recognised groups differs between frames
    return violation.get("sig") == "ligand-typing-frame"


@predicate("F23")
def _f23(prop, case, violation):
    # one-residue chain (N and OXT in one residue) listed as whole-residue alternates: N+ only in the first alternate
    return violation.get("sig") == "one-residue-chain-alternates"
