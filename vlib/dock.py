"""Encounter complexes of two corpus chains (one chain turned and placed against the other) and a probe for the
iterative scheme's "did not converge" message.  Such complexes are the only inputs met so far whose iterative clusters
do not settle within the cap of ten iterations; the poses are stored as parameters (witnesses/nonconverging_poses.json)
and rebuilt from the corpus files at run time."""
import io
import logging
import math

from . import gen, pdbio
from .pdbio import Atom


def chain_atoms(name, chain):
    return [a for a in pdbio.atoms_of(pdbio.parse(gen.corpus_text(name)))
            if a.rec == "ATOM" and a.chain == chain and a.alt in (" ", "A") and a.model == 1]


def _rotation(axis, angle):
    n = math.sqrt(sum(a * a for a in axis))
    x, y, z = [a / n for a in axis]
    c, s = math.cos(angle), math.sin(angle)
    k = 1.0 - c
    return [[c + x * x * k, x * y * k - z * s, x * z * k + y * s],
            [y * x * k + z * s, c + y * y * k, y * z * k - x * s],
            [z * x * k - y * s, z * y * k + x * s, c + z * z * k]]


def pose(spec, chains=("A", "B")):
    """Entries (Atom objects and TER lines) of the complex described by ``spec``; coordinates in 0.001 A."""
    first = [a.copy() for a in chain_atoms(*spec["a"])]
    second = [a.copy() for a in chain_atoms(*spec["b"])]
    cen = [sum(getattr(a, f) for a in second) / len(second) for f in "xyz"]
    rot = _rotation(spec["axis"], spec["angle"])
    tgt = [int(round(t * 1000)) for t in spec["target"]]
    for a in second:
        p = [a.x - cen[0], a.y - cen[1], a.z - cen[2]]
        a.x, a.y, a.z = [int(round(sum(rot[i][j] * p[j] for j in range(3)))) + tgt[i] for i in range(3)]
    out = []
    for atoms, ch in ((first, chains[0]), (second, chains[1])):
        for a in atoms:
            a.chain = ch
            a.alt = " "
        out.extend(atoms)
        out.append(gen.ter_line(atoms[-1]))
    return out


class _Count(logging.Handler):
    def __init__(self):
        super().__init__(level=logging.INFO)
        self.hits = 0

    def emit(self, record):
        if "did not converge" in record.getMessage():
            self.hits += 1


def nonconverging(text, optargs=()):
    """Number of 'did not converge' messages of the iterative scheme while ``text`` is processed."""
    import propka.run
    lg = logging.getLogger("propka.iterative")
    h = _Count()
    old_level, old_disable = lg.level, logging.root.manager.disable
    lg.addHandler(h)
    lg.setLevel(logging.INFO)
    logging.disable(logging.NOTSET)
    try:
        propka.run.single("probe.pdb", list(optargs), stream=io.StringIO(text), write_pka=False)
    finally:
        lg.removeHandler(h)
        lg.setLevel(old_level)
        logging.disable(old_disable)
    return h.hits
