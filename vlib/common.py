"""Helpers shared by the structure-level property modules."""
from vlib import observe, pdbio


def xyz_keymap(text_from, text_to, inverse_motion=None):
    """Function mapping file indices of ``text_from`` to file indices of ``text_to`` through the coordinates
    (optionally mapped back by a rigid motion first).  Unmappable -> ('?', index)."""
    a_from = pdbio.atoms_of(pdbio.parse(text_from))
    a_to = pdbio.atoms_of(pdbio.parse(text_to))
    by_xyz = {}
    for i, a in enumerate(a_to):
        by_xyz.setdefault((a.model, a.xyz), i)
        by_xyz.setdefault(a.xyz, i)

    def km(k):
        if not isinstance(k, int):
            if isinstance(k, (tuple, list)) and len(k) == 3 and k[0] == "H":
                return ("H", km(k[1]), k[2])
            return k
        a = a_from[k]
        xyz = a.xyz if inverse_motion is None else inverse_motion(a.xyz)
        r = by_xyz.get((a.model, xyz))
        if r is None:
            r = by_xyz.get(xyz)
        return r if r is not None else ("?", k)
    return km


def interaction_stats(rec):
    """Counts used by the non-triviality rules."""
    n_groups = n_det = n_desolv = n_iter = n_coupled = n_tit = 0
    maxburial = 0
    for c in rec.get("conf_names", []):
        for g in rec["confs"][c]["groups"]:
            if not g["reported"]:
                continue
            n_groups += 1
            n_tit += g["titratable"]
            nd = sum(len(g["dets"][t]) for t in observe.DET_TYPES)
            n_det += 1 if nd else 0
            n_desolv += 1 if g["evol"] != 0 else 0
            n_coupled += 1 if g["noncov"] else 0
            maxburial = max(maxburial, g["nvol"])
    return {"groups": n_groups, "with_dets": n_det, "with_desolv": n_desolv, "coupled": n_coupled,
            "titratable": n_tit, "max_nvol": maxburial}


def fmt_diffs(diffs, limit=3):
    out = []
    for d in diffs[:limit]:
        out.append("%s[%s] %s" % (d.get("label"), d.get("conf"), "; ".join(d["diffs"][:2])))
    if len(diffs) > limit:
        out.append("... %d groups differ" % len(diffs))
    return " | ".join(out)


def is_amino_only(entries):
    return all(a.rec == "ATOM" and a.resn in pdbio.AMINO for a in pdbio.atoms_of(entries))


TWIN_RANGE = 30000


def twin_atoms(entries):
    """Atoms of residues that share (model, chain, number) with a residue of another insertion code (finding F5)."""
    by = {}
    for (m, c, n, i, t), ats in pdbio.residues(entries):
        by.setdefault((m, c, n), {}).setdefault(i, []).extend(ats)
    out = []
    for d in by.values():
        if len(d) > 1:
            for ats in d.values():
                out.extend(ats)
    return out


def twin_sig(text, keys):
    """'icode-twin' if the input has insertion-code twins and every given file index lies within 30 A of one."""
    entries = pdbio.parse(text)
    tw = twin_atoms(entries)
    if not tw or not keys:
        return None
    atoms = pdbio.atoms_of(entries)
    for k in keys:
        if not isinstance(k, int) or k >= len(atoms):
            return None
        a = atoms[k]
        if not any(pdbio.sq_dist(a, t) < TWIN_RANGE ** 2 for t in tw):
            return None
    return "icode-twin"
