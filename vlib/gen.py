"""Structure generators (Hypothesis strategies) over the independent PDB model of vlib.pdbio.

Sound first: only files a PDB reader is documented to accept are produced (fixed columns, unique residue identifiers
per model unless a generator flag says otherwise, coordinates inside the %8.3f field, unique coordinates).
Every random choice is a Hypothesis draw.
"""
import math
import os

from hypothesis import strategies as st

from vlib import pdbio
from vlib.pdbio import Atom

ROOT = os.path.dirname(os.path.dirname(os.path.abspath(__file__)))
CORPUS_DIR = os.path.join(ROOT, "corpus")
PROTEINS = ["1FTJ-Chain-A", "1HPX", "3SGB", "4DFR"]
IGNORABLE = ("HOH", "H2O", "SO4", "PO4", "PEG", "EPE", "TRS")
IONIZABLE = ("ASP", "GLU", "HIS", "CYS", "TYR", "LYS", "ARG")
HBONDERS = ("SER", "THR", "ASN", "GLN", "TRP")
HEAVY_COUNT = {'ALA': 5, 'ARG': 11, 'ASN': 8, 'ASP': 8, 'CYS': 6, 'GLY': 4, 'GLN': 9, 'GLU': 9, 'HIS': 10, 'ILE': 8,
               'LEU': 8, 'LYS': 9, 'MET': 8, 'PHE': 11, 'PRO': 7, 'SER': 6, 'THR': 7, 'TRP': 14, 'TYR': 12, 'VAL': 7}

_cache = {}


def corpus_text(name):
    with open(os.path.join(CORPUS_DIR, name + ".pdb")) as fh:
        return fh.read()


def corpus(name):
    """Parsed corpus file with waters/ignorable residues and hydrogens removed and alternate locations resolved
    (blank or 'A' kept), as a list of chains: [(chain id, [residue = list of Atom])], hetero residues included."""
    if name in _cache:
        return _cache[name]
    entries = pdbio.parse(corpus_text(name))
    atoms = [a for a in pdbio.atoms_of(entries) if a.resn.strip() not in IGNORABLE and not a.is_h
             and a.alt in (" ", "A")]
    for a in atoms:
        a.alt = " "
    res = pdbio.residues(atoms)
    chains = []
    for key, ats in res:
        if not chains or chains[-1][0] != key[1] or (ats[0].rec == "HETATM") != chains[-1][2]:
            chains.append([key[1], [], ats[0].rec == "HETATM"])
        chains[-1][1].append(ats)
    out = [(c, r, het) for c, r, het in chains]
    _cache[name] = out
    return out


def protein_chains(name):
    return [(c, r) for c, r, het in corpus(name) if not het]


def hetero_residues(name):
    return [res for c, r, het in corpus(name) if het for res in r]


# ---- local frames and the side-chain (rotamer) library ----------------------------------------------------------

def _sub(a, b):
    return (a[0] - b[0], a[1] - b[1], a[2] - b[2])


def _cross(a, b):
    return (a[1] * b[2] - a[2] * b[1], a[2] * b[0] - a[0] * b[2], a[0] * b[1] - a[1] * b[0])


def _dot(a, b):
    return a[0] * b[0] + a[1] * b[1] + a[2] * b[2]


def _unit(a):
    n = math.sqrt(_dot(a, a))
    return (a[0] / n, a[1] / n, a[2] / n)


def frame_of(residue):
    """Orthonormal frame (origin CA, e1 along CA->N, e3 normal of the N-CA-C plane) or None."""
    at = {a.aname: a for a in residue}
    if not all(k in at for k in ("N", "CA", "C")):
        return None
    ca, n, c = at["CA"].xyz, at["N"].xyz, at["C"].xyz
    v1, v2 = _sub(n, ca), _sub(c, ca)
    cr = _cross(v1, v2)
    if _dot(cr, cr) == 0:
        return None
    e1 = _unit(v1)
    e3 = _unit(cr)
    e2 = _cross(e3, e1)
    return ca, e1, e2, e3


def rotamer_library():
    """residue type -> list of side chains; a side chain is a list of (name field, (l1, l2, l3)) in the local frame."""
    if "rotamers" in _cache:
        return _cache["rotamers"]
    lib = {t: [] for t in pdbio.AMINO}
    for p in PROTEINS:
        for _c, ress in protein_chains(p):
            for res in ress:
                t = res[0].resn
                if t not in lib or res[0].rec != "ATOM":
                    continue
                heavy = [a for a in res if a.aname not in pdbio.TERMINAL_O]
                if len(heavy) != HEAVY_COUNT[t]:
                    continue
                fr = frame_of(res)
                if fr is None:
                    continue
                o, e1, e2, e3 = fr
                side = []
                for a in heavy:
                    if a.aname in pdbio.BACKBONE:
                        continue
                    d = _sub(a.xyz, o)
                    side.append((a.name, (_dot(d, e1), _dot(d, e2), _dot(d, e3))))
                lib[t].append(side)
    _cache["rotamers"] = lib
    return lib


def mutate_residue(residue, new_type, rotamer_index):
    """Replace the side chain of ``residue`` by a library rotamer of ``new_type`` (backbone kept).  Returns a new
    residue (list of Atom) or None if the residue has no usable backbone frame."""
    fr = frame_of(residue)
    if fr is None:
        return None
    lib = rotamer_library()[new_type]
    o, e1, e2, e3 = fr
    keep = [a.copy() for a in residue if a.aname in pdbio.BACKBONE or a.aname in pdbio.TERMINAL_O]
    proto = keep[0]
    for a in keep:
        a.resn = new_type
        a.rec = "ATOM"
    new = []
    if lib:
        side = lib[rotamer_index % len(lib)]
        for name, (l1, l2, l3) in side:
            x = o[0] + l1 * e1[0] + l2 * e2[0] + l3 * e3[0]
            y = o[1] + l1 * e1[1] + l2 * e2[1] + l3 * e3[1]
            z = o[2] + l1 * e1[2] + l2 * e2[2] + l3 * e3[2]
            b = proto.copy()
            b.name, b.x, b.y, b.z = name, int(round(x)), int(round(y)), int(round(z))
            new.append(b)
    # order: N, CA, C, O, side chain, terminal oxygens (as in PDB files)
    bb = [a for a in keep if a.aname in pdbio.BACKBONE]
    ter = [a for a in keep if a.aname in pdbio.TERMINAL_O]
    return bb + new + ter


def make_ace(residue):
    """An acetyl cap (ATOM records ACE: CH3, C, O) in front of ``residue``: planar, C bonded to the residue's N at
    1.33 A making about 120 degrees with CA.  Returns a list of atoms or None."""
    at = {a.aname: a for a in residue}
    if "N" not in at or "CA" not in at or "C" not in at:
        return None
    n, ca, c = at["N"], at["CA"], at["C"]
    u = _sub(ca.xyz, n.xyz)
    w = _cross(u, _sub(c.xyz, ca.xyz))
    if _dot(w, w) == 0:
        return None
    ul = math.sqrt(_dot(u, u))
    u = tuple(x / ul for x in u)
    v = _cross(w, u)
    vl = math.sqrt(_dot(v, v))
    v = tuple(x / vl for x in v)                       # in the N-CA-C plane, perpendicular to N->CA

    def at_(origin, du, dv, length):
        return tuple(int(round(origin[i] + length * (du * u[i] + dv * v[i]))) for i in range(3))
    cpos = at_(n.xyz, -0.5, 0.866, 1330)               # 120 degrees from N->CA
    opos = at_(cpos, 0.5, 0.866, 1230)
    mpos = at_(cpos, -1.0, 0.0, 1520)
    out = []
    for name, pos in ((" CH3", mpos), (" C  ", cpos), (" O  ", opos)):
        b = n.copy()
        b.name, b.x, b.y, b.z = name, pos[0], pos[1], pos[2]
        b.resn, b.rec, b.alt = "ACE", "ATOM", " "
        b.resnum, b.icode = n.resnum - 1, " "
        out.append(b)
    return out


def make_oxt(residue):
    """Construct a terminal oxygen for a residue that has CA, C, O (mirror image of O through the CA->C axis)."""
    at = {a.aname: a for a in residue}
    if not all(k in at for k in ("CA", "C", "O")) or "OXT" in at:
        return None
    c, ca, o = at["C"].xyz, at["CA"].xyz, at["O"].xyz
    u = _unit(_sub(c, ca))
    v = _sub(o, c)
    par = _dot(v, u)
    vpar = (par * u[0], par * u[1], par * u[2])
    vperp = _sub(v, vpar)
    pos = (c[0] + vpar[0] - vperp[0], c[1] + vpar[1] - vperp[1], c[2] + vpar[2] - vperp[2])
    b = at["O"].copy()
    b.name = " OXT"
    b.x, b.y, b.z = int(round(pos[0])), int(round(pos[1])), int(round(pos[2]))
    return b


# ---- small-molecule and ion library -----------------------------------------------------------------------------

def _mol(resn, atoms, expect):
    """atoms: list of (name field, x, y, z in Angstrom)."""
    return {"resn": resn, "atoms": [(n, int(round(x * 1000)), int(round(y * 1000)), int(round(z * 1000)))
                                    for n, x, y, z in atoms], "expect": expect}


def _ring(names, radius, z=0.0):
    n = len(names)
    return [(names[i], radius * math.cos(2 * math.pi * i / n), radius * math.sin(2 * math.pi * i / n), z)
            for i in range(n)]


# expected multiset of ligand group types (chemically: carboxylate -> OCO, amidinium -> C2N, ...), checked by C01
LIGANDS = {
    "ACT": _mol("ACT", [(" C1 ", 0, 0, 0), (" C2 ", 1.52, 0, 0), (" O1 ", 2.14, 1.08, 0), (" O2 ", 2.14, -1.08, 0)],
                ["OCO"]),
    "MLA": _mol("MLA", [(" C1 ", 0, 0, 0), (" C2 ", 1.30, 0.80, 0), (" O1 ", 1.30, 2.05, 0), (" O2 ", 2.35, 0.12, 0),
                        (" C3 ", -1.30, 0.80, 0), (" O3 ", -1.30, 2.05, 0), (" O4 ", -2.35, 0.12, 0)],
                ["OCO", "OCO"]),
    "MGX": _mol("MGX", [(" C1 ", 0, 0, 0), (" N1 ", 1.33, 0, 0), (" N2 ", -0.665, 1.152, 0),
                        (" N3 ", -0.665, -1.152, 0), (" CM ", 2.09, 1.26, 0)], ["CG"]),
    "AMD": _mol("AMD", [(" C1 ", -1.50, 0, 0), (" C2 ", 0, 0, 0), (" N1 ", 0.70, 1.13, 0), (" N2 ", 0.70, -1.13, 0)],
                ["C2N"]),
    "NH4": _mol("NH4", [(" N1 ", 0, 0, 0)], ["N30"]),
    "MAM": _mol("MAM", [(" C1 ", 0, 0, 0), (" N1 ", 1.47, 0, 0)], ["N31"]),
    "DMA": _mol("DMA", [(" C1 ", -1.20, -0.85, 0), (" N1 ", 0, 0, 0), (" C2 ", 1.20, -0.85, 0)], ["N32"]),
    "TMA": _mol("TMA", [(" N1 ", 0, 0, 0), (" C1 ", 1.386, 0, -0.49), (" C2 ", -0.693, 1.2, -0.49),
                        (" C3 ", -0.693, -1.2, -0.49)], ["N33"]),
    "PYR": _mol("PYR", _ring([" N1 ", " C2 ", " C3 ", " C4 ", " C5 ", " C6 "], 1.39), ["NAR"]),
    "NMA": _mol("NMA", [(" C1 ", -1.50, 0.20, 0), (" C2 ", 0, 0, 0), (" O1 ", 0.55, -1.10, 0), (" N1 ", 0.75, 1.10, 0),
                        (" C3 ", 2.20, 1.10, 0)], ["NAM", "O2"]),
    "ANL": _mol("ANL", _ring([" C1 ", " C2 ", " C3 ", " C4 ", " C5 ", " C6 "], 1.39) + [(" N1 ", 2.79, 0, 0)],
                ["NP1"]),
    "ACN": _mol("ACN", [(" C1 ", 0, 0, 0), (" C2 ", 1.46, 0, 0), (" N1 ", 2.62, 0, 0)], ["N1"]),
    "MPO": _mol("MPO", [(" P1 ", 0, 0, 0), (" O1 ", 0.87, 0.87, 0.87), (" O2 ", -0.87, -0.87, 0.87),
                        (" O3 ", -0.87, 0.87, -0.87), (" O4 ", 0.92, -0.92, -0.92), (" C1 ", 1.95, -1.45, -0.10)],
                ["OP", "OP", "OP", "O3"]),
    "MSH": _mol("MSH", [(" C1 ", 0, 0, 0), (" S1 ", 1.82, 0, 0)], ["SH"]),
    "MOH": _mol("MOH", [(" C1 ", 0, 0, 0), (" O1 ", 1.43, 0, 0)], ["OH"]),
    "DME": _mol("DME", [(" C1 ", -1.17, -0.80, 0), (" O1 ", 0, 0, 0), (" C2 ", 1.17, -0.80, 0)], ["O3"]),
    "ACE": _mol("ACE", [(" C1 ", -1.29, -0.78, 0), (" C2 ", 0, 0, 0), (" O1 ", 0, 1.22, 0), (" C3 ", 1.29, -0.78, 0)],
                ["O2"]),
    "FME": _mol("FME", [(" C1 ", 0, 0, 0), (" F1 ", 1.38, 0, 0)], ["F"]),
    "CLM": _mol("CLM", [(" C1 ", 0, 0, 0), ("CL1 ", 1.78, 0, 0)], ["Cl"]),
}
#: ion residue names of the shipped parameter file with a plausible atom-name field
IONS = {"MG": "MG  ", "CA": "CA  ", "ZN": "ZN  ", "NA": "NA  ", "CL": "CL  ", "MN": "MN  ", "K": " K  ", "CD": "CD  ",
        "FE": "FE  ", "SR": "SR  ", "CU": "CU  ", "IOD": " I  ", "HG": "HG  ", "BR": "BR  ", "CO": "CO  ",
        "NI": "NI  ", "FE2": "FE  ", "1P": " X1 ", "2P": " X2 ", "1N": " X1 ", "2N": " X2 "}
ION_CHARGE = {"1P": 1, "2P": 2, "1N": -1, "2N": -2, "MG": 2, "CA": 2, "ZN": 2, "NA": 1, "CL": -1, "MN": 2, "K": 1,
              "CD": 2, "FE": 3, "SR": 2, "CU": 2, "IOD": -1, "HG": 2, "BR": -1, "CO": 2, "NI": 2, "FE2": 2}

DIRECTIONS = [(1, 0, 0), (0, 1, 0), (0, 0, 1), (-1, 0, 0), (0, -1, 0), (0, 0, -1),
              (1, 1, 1), (-1, 1, 1), (1, -1, 1), (1, 1, -1), (-1, -1, 1), (-1, 1, -1), (1, -1, -1), (-1, -1, -1),
              (2, 1, 0), (0, 2, 1), (1, 0, 2), (-2, 1, 0), (0, -2, 1), (1, 0, -2)]


def hetero_residue(resn, atoms_xyz, chain, resnum, rot, origin):
    """Build a HETATM residue from (name, x, y, z) milli-A in its own frame, rotated by a grid rotation and moved so
    that its first atom sits at ``origin``."""
    out = []
    x0, y0, z0 = atoms_xyz[0][1:]
    for name, x, y, z in atoms_xyz:
        p = pdbio.apply_motion((x - x0, y - y0, z - z0), rot, origin)
        out.append(Atom(rec="HETATM", name=name, resn=resn.rjust(3), chain=chain, resnum=resnum,
                        x=p[0], y=p[1], z=p[2]))
    return out


def min_sq_dist(atoms_a, atoms_b):
    best = None
    for a in atoms_a:
        for b in atoms_b:
            d = pdbio.sq_dist(a, b)
            if best is None or d < best:
                best = d
    return best


class Grid:
    """Cell list over milli-A integer coordinates for clash tests."""

    def __init__(self, atoms, cell=3000):
        self.cell = cell
        self.cells = {}
        for a in atoms:
            self.add(a)

    def _k(self, a):
        return (a.x // self.cell, a.y // self.cell, a.z // self.cell)

    def add(self, a):
        self.cells.setdefault(self._k(a), []).append(a)

    def near(self, a, r):
        """Atoms within r (milli-A, r <= cell) of a."""
        kx, ky, kz = self._k(a)
        out = []
        r2 = r * r
        for dx in (-1, 0, 1):
            for dy in (-1, 0, 1):
                for dz in (-1, 0, 1):
                    for b in self.cells.get((kx + dx, ky + dy, kz + dz), ()):
                        if pdbio.sq_dist(a, b) < r2:
                            out.append(b)
        return out


# ---- the structure strategy ---------------------------------------------------------------------------------------

class Structure:
    """A generated input: list of pdbio entries + labels for the class histogram."""

    def __init__(self, entries, labels=None, info=None):
        self.entries = entries
        self.labels = list(labels or [])
        self.info = dict(info or {})

    @property
    def text(self):
        return pdbio.write(self.entries)

    def atoms(self):
        return pdbio.atoms_of(self.entries)

    def summary(self):
        res = pdbio.residues(self.entries)
        seq = []
        for (m, c, n, i, t), ats in res[:60]:
            seq.append("%s%s%d%s" % (t.strip(), c.strip() or "_", n, i.strip()))
        return {"n_atoms": len(self.atoms()), "n_residues": len(res), "residues": " ".join(seq)[:400],
                "labels": self.labels, "head": self.text[:243]}


CHAIN_IDS = list("ABCDEXYZabz0129") + [" "]
NEW_TYPES = list(IONIZABLE) * 4 + list(HBONDERS) * 2 + ["ALA", "GLY", "PRO", "PHE", "LEU", "MET", "VAL", "ILE"]


def ter_line(last_atom=None):
    return "TER   \n" if last_atom is None else "TER   %5s      %3s %1s%4d%1s\n" % (
        "", last_atom.resn, last_atom.chain, last_atom.resnum, last_atom.icode)


@st.composite
def base_chains(draw, max_res=40, min_res=2, allow_ball=True, max_atoms=1400, protein=None):
    """Draw protein material from the corpus: list of chains, each a list of residues (copies), plus labels.
    Either 1-3 disjoint contiguous segments of one corpus protein (kept at their crystal positions, so segments of
    one protein keep their real contacts) or a ball of whole residues around a residue (keeps realistic burial)."""
    pname = protein or draw(st.sampled_from(PROTEINS))
    chains = protein_chains(pname)
    labels = ["src:" + pname]
    kind = draw(st.sampled_from(["segment", "segment", "segments", "ball", "ball"] if allow_ball
                                else ["segment", "segments"]))
    out = []
    if kind == "ball":
        ci = draw(st.integers(0, len(chains) - 1))
        ress = chains[ci][1]
        centre = ress[draw(st.integers(0, len(ress) - 1))]
        radius = draw(st.integers(6, 16)) * 1000
        cat = [a for a in centre if a.aname == "CA"] or centre[:1]
        c0 = cat[0]
        r2 = radius * radius
        count = 0
        for cid, rs in chains:
            sel = []
            for res in rs:
                if any(pdbio.sq_dist(a, c0) < r2 for a in res):
                    if count + len(res) > max_atoms:
                        break
                    sel.append([a.copy() for a in res])
                    count += len(res)
            if sel:
                out.append(sel)
        labels.append("kind:ball")
    else:
        nseg = 1 if kind == "segment" else draw(st.integers(2, 3))
        # disjoint ranges over the concatenated residue list of a single chain or of several chains
        used = []
        for _ in range(nseg):
            ci = draw(st.integers(0, len(chains) - 1))
            ress = chains[ci][1]
            length = draw(st.integers(min_res, max(min_res, min(max_res // nseg, len(ress)))))
            start = draw(st.integers(0, len(ress) - length))
            rng = (ci, start, start + length)
            if any(u[0] == ci and not (rng[2] <= u[1] or rng[1] >= u[2]) for u in used):
                continue
            used.append(rng)
        used.sort()
        for ci, a, b in used:
            out.append([[x.copy() for x in res] for res in chains[ci][1][a:b]])
        labels.append("kind:%s" % kind)
    return out, labels, pname


@st.composite
def structures(draw, max_res=40, min_res=2, allow_ball=True, allow_hetero=True, allow_relabel=True,
               allow_mutation=True, multi_chain=None, max_atoms=1400, distinct_chain_ids=False,
               allow_icode=True, protein=None, always_ter=False, allow_clash=True, allow_truncation=True,
               ligand_copies=False, allow_caps=True):
    chains, labels, pname = draw(base_chains(max_res=max_res, min_res=min_res, allow_ball=allow_ball,
                                             max_atoms=max_atoms, protein=protein))
    if multi_chain is True and len(chains) < 2:
        # split the single chain in two
        c = chains[0]
        if len(c) >= 2:
            cut = draw(st.integers(1, len(c) - 1))
            chains = [c[:cut], c[cut:]]
    info = {"protein": pname}
    # ---- mutations (threading new side chains onto the backbone) ----
    nres = sum(len(c) for c in chains)
    if allow_mutation and nres:
        nmut = draw(st.sampled_from([0, 0, 1, 2, 3, 5, 8]))
        nmut = min(nmut, nres)
        flat = [(ci, ri) for ci, c in enumerate(chains) for ri in range(len(c))]
        done = 0
        clashes = 0
        grid = Grid([a for c in chains for r in c for a in r]) if nmut else None
        for _ in range(nmut):
            ci, ri = flat[draw(st.integers(0, len(flat) - 1))]
            t = draw(st.sampled_from(NEW_TYPES))
            rot = draw(st.integers(0, 40))
            may_clash = allow_clash and draw(st.integers(0, 6)) == 0
            res = chains[ci][ri]
            if res[0].rec != "ATOM" or res[0].resn not in HEAVY_COUNT:
                continue
            new = None
            own = set(id(a) for a in res)
            for attempt in range(4):
                cand = mutate_residue(res, t, rot + attempt)
                if cand is None:
                    break
                side = [a for a in cand if a.aname not in pdbio.BACKBONE and a.aname not in pdbio.TERMINAL_O]
                # new side-chain atoms must stay beyond bonding distance of every atom of other residues
                bad = any(id(b) not in own for a in side for b in grid.near(a, 2150))
                if not bad or may_clash:
                    new = cand
                    clashes += bad
                    break
            if new is not None:
                chains[ci][ri] = new
                grid = Grid([a for c in chains for r in c for a in r])
                done += 1
        if clashes:
            labels.append("clash")
        if done:
            labels.append("mutated")
    # ---- truncations: incomplete residues (missing side-chain ends, single atoms, backbone atoms) ----
    if allow_truncation and nres and draw(st.integers(0, 3)) == 0:
        ntr = draw(st.integers(1, 4))
        for _ in range(ntr):
            ci = draw(st.integers(0, len(chains) - 1))
            ri = draw(st.integers(0, len(chains[ci]) - 1))
            res = chains[ci][ri]
            how = draw(st.sampled_from(["atom", "atom", "tail", "tail", "backbone"]))
            if how == "atom" and len(res) > 1:
                del res[draw(st.integers(0, len(res) - 1))]
            elif how == "tail":
                side = [i for i, a in enumerate(res) if a.aname not in pdbio.BACKBONE + ("CB",)
                        and a.aname not in pdbio.TERMINAL_O]
                if side:
                    cut = side[draw(st.integers(0, len(side) - 1))]
                    keep = [a for i, a in enumerate(res) if i < cut or a.aname in pdbio.TERMINAL_O]
                    if keep:
                        res[:] = keep
            elif how == "backbone":
                bb = [i for i, a in enumerate(res) if a.aname in ("O", "C", "N")]
                if bb and len(res) > 1:
                    del res[bb[draw(st.integers(0, len(bb) - 1))]]
        labels.append("truncated")
    # ---- relabelling: chain ids, numbering, insertion codes ----
    ids = []
    for ci, c in enumerate(chains):
        if allow_relabel and draw(st.booleans()):
            cid = draw(st.sampled_from(CHAIN_IDS))
        else:
            cid = c[0][0].chain
        if distinct_chain_ids and cid in ids:
            for cand in CHAIN_IDS:
                if cand not in ids:
                    cid = cand
                    break
        ids.append(cid)
        scheme = draw(st.sampled_from(["keep"] * 5 + ["seq"] * 3 + ["gaps"] * 3 + ["icode"])) if allow_relabel \
            else "keep"
        if scheme == "icode" and not allow_icode:
            scheme = "seq"
        if scheme != "keep":
            n = draw(st.sampled_from([1, 1, 2, -5, -30, 0, 95, 990, 1200, 9990 - len(c) * 3]))
            codes = " ABCDEF"
            k = 0
            for ri, res in enumerate(c):
                ic = " "
                if scheme == "seq":
                    num = n + ri
                elif scheme == "gaps":
                    n += draw(st.sampled_from([1, 1, 1, 2, 7])) if ri else 0
                    num = n
                else:
                    # runs of residues sharing a number, distinguished by insertion code
                    if ri and draw(st.sampled_from([True, False, False])) and k < len(codes) - 1:
                        k += 1
                    elif ri:
                        n += 1
                        k = 0
                    num, ic = n, codes[k]
                for a in res:
                    a.resnum, a.icode = num, ic
            labels.append("numbering:" + scheme)
        for res in c:
            for a in res:
                a.chain = cid
    # residue identifiers must be unique and inside the 4-column field: a chain that collides with an earlier one (or
    # leaves the field) is renumbered sequentially from the first free start
    seen = set()
    for ci, c in enumerate(chains):
        keys = [(res[0].chain, res[0].resnum, res[0].icode) for res in c]
        bad = len(set(keys)) != len(keys) or any(k in seen for k in keys) or \
            any(not -999 <= k[1] <= 9999 for k in keys)
        if bad:
            cid = c[0][0].chain
            for start in (1, 2001, 4001, 6001, 8001, -900, 1001, 3001, 5001, 7001):
                cand = [(cid, start + ri, " ") for ri in range(len(c))]
                if not any(k in seen for k in cand) and start + len(c) <= 9999:
                    for ri, res in enumerate(c):
                        for a in res:
                            a.resnum, a.icode = start + ri, " "
                    break
        for res in c:
            seen.add((res[0].chain, res[0].resnum, res[0].icode))
    if len(chains) > 1:
        labels.append("chains:%d" % len(chains))
    if any(r[0].icode != " " for c in chains for r in c):
        labels.append("icode")
    if any(r[0].resnum < 0 for c in chains for r in c):
        labels.append("negative-numbers")
    if any(r[0].chain == " " for c in chains for r in c):
        labels.append("blank-chain")
    # ---- termini: OXT and TER layout ----
    entries = []
    het_tail = []
    for ci, c in enumerate(chains):
        prot = [r for r in c if r[0].rec == "ATOM"]
        if prot:
            last = prot[-1]
            has_oxt = any(a.aname in pdbio.TERMINAL_O for a in last)
            want = draw(st.sampled_from(["oxt", "oxt", "none", "oxt-first"]))
            if want != "none" and not has_oxt:
                oxt = make_oxt(last)
                if oxt is not None:
                    if want == "oxt-first":
                        # terminal oxygen not the last atom of its residue
                        pos = max(i for i, a in enumerate(last) if a.aname == "O") + 1
                        last.insert(pos, oxt)
                        labels.append("oxt-not-last")
                    else:
                        last.append(oxt)
            elif want == "none" and has_oxt:
                last[:] = [a for a in last if a.aname not in pdbio.TERMINAL_O]
            first = prot[0]
            if allow_caps and draw(st.integers(0, 11)) == 0 and first[0].resnum > -999 and \
                    (first[0].chain, first[0].resnum - 1, " ") not in seen and first[0].icode == " ":
                cap = make_ace(first)
                if cap is not None and not any(min_sq_dist(cap, r) < 1500 ** 2 for cc in chains for r in cc
                                               if r is not first):
                    c.insert(c.index(first), cap)
                    seen.add((first[0].chain, first[0].resnum - 1, " "))
                    labels.append("ace-cap")
            # strip terminal oxygens from the middle of chains that were cut out of a longer one? keep: legitimate
        for r in c:
            entries.extend(r)
        ter = True if always_ter else draw(st.sampled_from([True, True, False]))
        if ter:
            # one TER in four carries no residue fields (both forms are common in deposited files)
            entries.append(ter_line(c[-1][-1] if draw(st.integers(0, 3)) else None))
        elif ci < len(chains) - 1:
            labels.append("no-ter-break")
    # ---- hetero groups: library ligands and ions placed next to a drawn atom ----
    if allow_hetero:
        nhet = draw(st.sampled_from([2, 2, 3] if ligand_copies else [0, 0, 0, 1, 1, 2, 3]))
        prot_atoms = [a for a in entries if isinstance(a, Atom)]
        if prot_atoms and nhet:
            grid = Grid(prot_atoms)
            hnum = 900
            prev = None
            prev_anchor = None
            last_placed = None
            placed_ids = set()
            for _ in range(nhet):
                if prev is not None and (ligand_copies or draw(st.integers(0, 3)) < (
                        2 if prev[2].startswith("lig:") else 1)):
                    # a second copy of the same molecule in the same chain (labels of its groups then coincide)
                    resn, mol, kindl, hchain_prev = prev
                elif not ligand_copies and draw(st.integers(0, 3)) == 0:
                    resn = sorted(IONS)[draw(st.integers(0, 10 ** 6)) % len(IONS)]        # (spread evenly over the names)
                    mol = [(IONS[resn], 0, 0, 0)]
                    kindl = "ion:" + resn
                else:
                    key = sorted(LIGANDS)[draw(st.integers(0, 10 ** 6)) % len(LIGANDS)]
                    resn, mol = LIGANDS[key]["resn"], LIGANDS[key]["atoms"]
                    kindl = "lig:" + key
                anchor = prot_atoms[draw(st.integers(0, len(prot_atoms) - 1))]
                if prev is not None and (resn, mol, kindl) == prev[:3] and prev_anchor is not None:
                    anchor = prev_anchor          # both copies then act on the same groups
                prev_anchor = anchor
                dist = draw(st.integers(2700, 7000))
                d0 = draw(st.integers(0, len(DIRECTIONS) - 1))
                rot = pdbio.ROTATIONS[draw(st.integers(0, 23))]
                hchain = draw(st.sampled_from([anchor.chain, anchor.chain, "L", "H"]))
                same_number = False
                if prev is not None and (resn, mol, kindl) == prev[:3]:
                    if draw(st.booleans()):
                        hchain = prev[3]
                    else:
                        # per-chain ligands of a dimer: other chain, same residue number, records back to back
                        hchain = "M" if prev[3] != "M" else "L"
                        same_number = True
                prev = (resn, mol, kindl, hchain)
                placed = None
                for k in range(6):
                    d = DIRECTIONS[(d0 + k * 7) % len(DIRECTIONS)]
                    nrm = math.sqrt(_dot(d, d))
                    origin = (anchor.x + int(d[0] * dist / nrm), anchor.y + int(d[1] * dist / nrm),
                              anchor.z + int(d[2] * dist / nrm))
                    num = hnum
                    if same_number and last_placed is not None and (hchain, last_placed[1]) not in placed_ids:
                        num = last_placed[1]
                    cand = hetero_residue(resn, mol, hchain, num, rot, origin)
                    if all(pdbio.COORD_MIN < v < pdbio.COORD_MAX for a in cand for v in a.xyz) and \
                            not any(grid.near(a, 2600) for a in cand):
                        placed = cand
                        break
                if placed:
                    for a in placed:
                        grid.add(a)
                    if any(r[0].resn == placed[0].resn for r in het_tail):
                        labels.append("copy:same-chain" if any(r[0].resn == placed[0].resn and r[0].chain == hchain
                                                               for r in het_tail) else "copy:other-chain")
                    het_tail.append(placed)
                    labels.append(kindl)
                    last_placed = (placed[0].chain, placed[0].resnum)
                    placed_ids.add(last_placed)
                    hnum += 1
    if het_tail and draw(st.sampled_from([False, False, True])):
        entries = [a for r in het_tail for a in r] + entries
        labels.append("hetero-first")
    else:
        for r in het_tail:
            entries.extend(r)
    # ---- uniqueness of coordinates (needed for keying groups by file position) ----
    seenxyz = set()
    for a in entries:
        if isinstance(a, Atom):
            while a.xyz in seenxyz:
                a.x += 1
            seenxyz.add(a.xyz)
    pdbio.renumber_serials(entries)
    if draw(st.sampled_from([True, False])):
        entries.append("END\n")
    return Structure(entries, labels, info)


# ---- buried host structures with threaded clusters of ionizable residues (C15 / C16 / C02) -----------------------------

PAIR_POOLS = {
    "acid-acid": (["ASP", "GLU"], ["ASP", "GLU"]),
    "base-base": (["LYS", "ARG", "HIS"], ["LYS", "ARG", "HIS"]),
    "his-his": (["HIS"], ["HIS"]),
    "cys-cys": (["CYS"], ["CYS"]),
    "cys-his": (["CYS"], ["HIS"]),
    "acid-base": (["ASP", "GLU", "TYR", "CYS"], ["LYS", "ARG", "HIS"]),
    "acid-his": (["ASP", "GLU"], ["HIS"]),
    "tyr-any": (["TYR"], ["ASP", "GLU", "HIS", "LYS", "ARG", "CYS", "TYR"]),
    "any": (list(IONIZABLE), list(IONIZABLE)),
}


def _host(name):
    key = "host:" + name
    if key in _cache:
        return _cache[key]
    chains = protein_chains(name)
    ress = [(ci, ri) for ci, (c, rs) in enumerate(chains) for ri in range(len(rs))]
    heavy = [a for c, rs in chains for r in rs for a in r] + [a for r in hetero_residues(name) for a in r]
    grid = Grid(heavy, cell=15000)
    info = []
    for ci, ri in ress:
        res = chains[ci][1][ri]
        ca = next((a for a in res if a.aname == "CA"), res[0])
        burial = len(grid.near(ca, 15000))
        info.append((burial, ci, ri, ca))
    _cache[key] = (chains, info)
    return _cache[key]


@st.composite
def buried_structures(draw, whole=True, pair_kind=None, with_hetero=True, hetero=None):
    """A corpus protein (whole, so that burial counts are realistic) in which a cluster of 2-4 residues around a
    buried position is replaced by drawn ionizable types (library rotamers, no clash with other residues)."""
    name = draw(st.sampled_from(PROTEINS))
    chains, info = _host(name)
    ranked = sorted(info, key=lambda t: -t[0])
    top = ranked[:max(5, len(ranked) * 2 // 5)]
    burial, ci, ri, ca = top[draw(st.integers(0, len(top) - 1))]
    kind = pair_kind or draw(st.sampled_from(sorted(PAIR_POOLS)))
    pool_a, pool_b = PAIR_POOLS[kind]
    # partners: residues whose CA lies 3.5-9 A from the centre CA
    near = [(b, cj, rj, c2) for (b, cj, rj, c2) in info if (cj, rj) != (ci, ri)
            and 3500 ** 2 < pdbio.sq_dist(ca, c2) < 9000 ** 2]
    new_chains = [[[a.copy() for a in r] for r in rs] for c, rs in chains]
    targets = [(ci, ri, draw(st.sampled_from(pool_a)))]
    npart = draw(st.integers(1, 3))
    for _ in range(min(npart, len(near))):
        b, cj, rj, c2 = near[draw(st.integers(0, len(near) - 1))]
        if any((cj, rj) == (x, y) for x, y, _t in targets):
            continue
        targets.append((cj, rj, draw(st.sampled_from(pool_b))))
    done = []
    for (cj, rj, t) in targets:
        res = new_chains[cj][rj]
        if res[0].resn not in HEAVY_COUNT:
            continue
        grid = Grid([a for rs in new_chains for r in rs for a in r])
        own = set(id(a) for a in res)
        rot0 = draw(st.integers(0, 60))
        for attempt in range(6):
            cand = mutate_residue(res, t, rot0 + attempt)
            if cand is None:
                break
            side = [a for a in cand if a.aname not in pdbio.BACKBONE and a.aname not in pdbio.TERMINAL_O]
            if not any(id(b) not in own for a in side for b in grid.near(a, 2150)):
                new_chains[cj][rj] = cand
                done.append("%s%d%s" % (t, res[0].resnum, res[0].chain))
                break
    entries = []
    for rs in new_chains:
        for r in rs:
            entries.extend(r)
        entries.append(ter_line(rs[-1][-1]))
    labels = ["src:" + name, "cluster:" + kind, "buried-host"]
    if with_hetero and (hetero is not None or draw(st.integers(0, 2)) == 0):
        # a library ion or ligand next to the cluster, where it fits (``hetero``: a given library name)
        if hetero is not None and hetero in IONS:
            resn = hetero
            mol, kindl = [(IONS[resn], 0, 0, 0)], "ion:" + resn
        elif hetero is not None:
            resn, mol, kindl = LIGANDS[hetero]["resn"], LIGANDS[hetero]["atoms"], "lig:" + hetero
        elif draw(st.booleans()):
            resn = sorted(IONS)[draw(st.integers(0, 10 ** 6)) % len(IONS)]        # (spread evenly over the names)
            mol, kindl = [(IONS[resn], 0, 0, 0)], "ion:" + resn
        else:
            key = sorted(LIGANDS)[draw(st.integers(0, 10 ** 6)) % len(LIGANDS)]
            resn, mol, kindl = LIGANDS[key]["resn"], LIGANDS[key]["atoms"], "lig:" + key
        grid = Grid([a for a in entries if isinstance(a, Atom)])
        cj, rj, _t = targets[draw(st.integers(0, len(targets) - 1))]
        anchor = new_chains[cj][rj][-1]
        rot = pdbio.ROTATIONS[draw(st.integers(0, 23))]
        d0 = draw(st.integers(0, len(DIRECTIONS) - 1))
        placed = None
        for dist in (3000, 3600, 4500, 6000):
            for k in range(len(DIRECTIONS)):
                d = DIRECTIONS[(d0 + k) % len(DIRECTIONS)]
                nrm = math.sqrt(_dot(d, d))
                origin = tuple(int(p + c * dist / nrm) for p, c in zip(anchor.xyz, d))
                cand = hetero_residue(resn, mol, "L", 950, rot, origin)
                if not any(grid.near(a, 2600) for a in cand):
                    placed = cand
                    break
            if placed:
                break
        if placed:
            entries.extend(placed)
            labels.append(kindl)
    if with_hetero:
        het = hetero_residues(name)
        if het and draw(st.booleans()):
            for r in het:
                entries.extend(a.copy() for a in r)
            labels.append("corpus-hetero")
    seen = set()
    for a in entries:
        if isinstance(a, Atom):
            while a.xyz in seen:
                a.x += 1
            seen.add(a.xyz)
    pdbio.renumber_serials(entries)
    return Structure(entries, labels, {"protein": name, "mutated": done, "centre_burial": burial})


@st.composite
def bridged_chains(draw, dist=(2000, 2499)):
    """Two three-residue chains cut from a corpus protein, joined by an S-S contact of a drawn length (milli-A) along a
    drawn direction (coordinate axes included), translated by a drawn offset.  Returns (entries, info)."""
    chains = protein_chains("1FTJ-Chain-A")
    start = draw(st.integers(5, 200))
    seg = chains[0][1][start:start + 6]
    ress = [[a.copy() for a in r] for r in seg]
    ress[1] = mutate_residue(ress[1], "CYS", draw(st.integers(0, 10)))
    ress[4] = mutate_residue(ress[4], "CYS", draw(st.integers(0, 10)))
    sg1 = next(a for a in ress[1] if a.aname == "SG")
    sg2 = next(a for a in ress[4] if a.aname == "SG")
    d = DIRECTIONS[draw(st.integers(0, len(DIRECTIONS) - 1))]
    length = draw(st.integers(dist[0], dist[1]))
    nrm = math.sqrt(_dot(d, d))
    sg2.x, sg2.y, sg2.z = (sg1.x + int(d[0] * length / nrm), sg1.y + int(d[1] * length / nrm),
                           sg1.z + int(d[2] * length / nrm))
    oxt = make_oxt(ress[2])
    if oxt is not None:
        ress[2].append(oxt)
    for r in ress[3:]:
        for a in r:
            a.chain = "B"
    ents = [a for r in ress[:3] for a in r] + [ter_line(ress[2][-1])] + [a for r in ress[3:] for a in r]
    off = (draw(st.integers(0, 5020)), draw(st.integers(0, 5020)), draw(st.integers(0, 5020)))
    ents = pdbio.move(ents, pdbio.ROTATIONS[0], off)
    pdbio.renumber_serials(ents)
    ents.append(ter_line(pdbio.atoms_of(ents)[-1]))
    return ents, {"direction": d, "length_mA": length, "offset_mA": off}


def with_alternate_location(entries, pick, renumber_from=None, add=True, whole=False):
    """Copy of ``entries`` in which one protein residue (the ``pick``-th with side-chain atoms) carries its side chain
    twice, as alternate locations A and B (B displaced by a few hundredths of an Angstrom), so that the input has two
    conformations.  With ``renumber_from`` every chain is first renumbered consecutively from that number, which makes
    the residue numbers of different chains overlap.  Returns (entries, changed)."""
    ents = [e.copy() if isinstance(e, Atom) else e for e in entries]
    if renumber_from is not None:
        counters = {}
        for (m, c, n, i, t), ats in pdbio.residues(ents):
            k = counters.get((m, c), renumber_from)
            counters[(m, c)] = k + 1
            for a in ats:
                a.resnum, a.icode = k, " "
    cands = [ats for (m, c, n, i, t), ats in pdbio.residues(ents)
             if ats[0].rec == "ATOM" and all(a.alt == " " for a in ats)
             and any(a.aname not in pdbio.BACKBONE and a.aname not in pdbio.TERMINAL_O for a in ats)]
    if not cands or not add:
        return ents, False
    ats = cands[pick % len(cands)]
    side = [a for a in ats if a.aname not in pdbio.BACKBONE and a.aname not in pdbio.TERMINAL_O]
    if whole:
        side = list(ats)            # backbone and terminal oxygen as well
    taken = {a.xyz for a in pdbio.atoms_of(ents)}
    copies = []
    for a in side:
        b = a.copy()
        b.alt = "B"
        b.x, b.y, b.z = a.x + 40, a.y - 30, a.z + 20
        while b.xyz in taken:
            b.x += 1
        taken.add(b.xyz)
        copies.append(b)
        a.alt = "A"
    out = []
    for e in ents:
        out.append(e)
        if e is ats[-1]:
            out.extend(copies)
    return out, True
