"""Heavy-atom templates of the 20 amino acids (written from chemistry) and the 'regular residue' predicate of C17."""
from vlib import pdbio, refs

SIDE_BONDS = {
    "ALA": ["CA-CB"],
    "ARG": ["CA-CB", "CB-CG", "CG-CD", "CD-NE", "NE-CZ", "CZ-NH1", "CZ-NH2"],
    "ASN": ["CA-CB", "CB-CG", "CG-OD1", "CG-ND2"],
    "ASP": ["CA-CB", "CB-CG", "CG-OD1", "CG-OD2"],
    "CYS": ["CA-CB", "CB-SG"],
    "GLN": ["CA-CB", "CB-CG", "CG-CD", "CD-OE1", "CD-NE2"],
    "GLU": ["CA-CB", "CB-CG", "CG-CD", "CD-OE1", "CD-OE2"],
    "GLY": [],
    "HIS": ["CA-CB", "CB-CG", "CG-ND1", "CG-CD2", "ND1-CE1", "CD2-NE2", "CE1-NE2"],
    "ILE": ["CA-CB", "CB-CG1", "CB-CG2", "CG1-CD1"],
    "LEU": ["CA-CB", "CB-CG", "CG-CD1", "CG-CD2"],
    "LYS": ["CA-CB", "CB-CG", "CG-CD", "CD-CE", "CE-NZ"],
    "MET": ["CA-CB", "CB-CG", "CG-SD", "SD-CE"],
    "PHE": ["CA-CB", "CB-CG", "CG-CD1", "CG-CD2", "CD1-CE1", "CD2-CE2", "CE1-CZ", "CE2-CZ"],
    "PRO": ["CA-CB", "CB-CG", "CG-CD", "CD-N"],
    "SER": ["CA-CB", "CB-OG"],
    "THR": ["CA-CB", "CB-OG1", "CB-CG2"],
    "TRP": ["CA-CB", "CB-CG", "CG-CD1", "CG-CD2", "CD1-NE1", "NE1-CE2", "CD2-CE2", "CD2-CE3", "CE2-CZ2", "CE3-CZ3",
            "CZ2-CH2", "CZ3-CH2"],
    "TYR": ["CA-CB", "CB-CG", "CG-CD1", "CG-CD2", "CD1-CE1", "CD2-CE2", "CE1-CZ", "CE2-CZ", "CZ-OH"],
    "VAL": ["CA-CB", "CB-CG1", "CB-CG2"],
}
BACKBONE_BONDS = ["N-CA", "CA-C", "C-O"]


def template(resname, has_oxt):
    bonds = set()
    for b in BACKBONE_BONDS + SIDE_BONDS[resname] + (["C-OXT"] if has_oxt else []):
        a, c = b.split("-")
        bonds.add(frozenset((a, c)))
    names = set()
    for b in bonds:
        names |= set(b)
    return names, bonds


def regular_residues(entries):
    """Classify the protein residues of a single-conformation structure.

    Returns {(chain, resnum, icode): info} for residues that are complete, whose reference-rule bond graph equals the
    template plus peptide bonds to both chain neighbours (or a terminal oxygen / a chain start), and that have no
    other atom within bonding distance (disulfide partners excepted).  info = {'resname', 'nterm', 'cterm', 'atoms'}"""
    from vlib import gen, census
    atoms = [a for a in pdbio.atoms_of(entries) if not a.is_h and a.resn.strip() not in census.IGNORABLE]
    grid = gen.Grid(atoms, cell=3000)
    res = pdbio.residues([a for a in atoms])
    sites = census.expected_sites(pdbio.write(entries))
    nterm_keys = set()
    allatoms = pdbio.atoms_of(entries)
    for m, lst in sites.items():
        for s in lst:
            if s["kind"] == "N+":
                a = allatoms[s["key"]]
                nterm_keys.add((a.chain, a.resnum, a.icode))
    out = {}
    for i, ((m, c, n, ic, t), ats) in enumerate(res):
        if ats[0].rec != "ATOM" or t not in SIDE_BONDS:
            continue
        names = [a.aname for a in ats]
        has_oxt = "OXT" in names
        tnames, tbonds = template(t, has_oxt)
        if sorted(names) != sorted(tnames):
            continue
        own = {id(a): a for a in ats}
        bonds = set()
        ok = True
        prev_ok = next_ok = False
        for a in ats:
            for b in grid.near(a, 2600):
                if b is a or not refs.ref_bonded(a.element, a.xyz, b.element, b.xyz)[0]:
                    continue
                if id(b) in own:
                    bonds.add(frozenset((a.aname, b.aname)))
                elif a.aname == "N" and b.aname == "C" and b.rec == "ATOM" and i > 0 and b in res[i - 1][1]:
                    prev_ok = True
                elif a.aname == "C" and b.aname == "N" and b.rec == "ATOM" and i + 1 < len(res) and b in res[i + 1][1]:
                    next_ok = True
                elif a.aname == "SG" and b.element == "S":
                    pass
                else:
                    ok = False
        key = (c, n, ic)
        nterm = key in nterm_keys
        if not ok or bonds != tbonds:
            continue
        if not (prev_ok or nterm) or not (next_ok or has_oxt):
            continue
        if prev_ok and nterm:
            continue
        out[key] = {"resname": t, "nterm": nterm, "cterm": has_oxt, "atoms": ats}
    return out
