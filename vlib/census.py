"""Independent census of ionizable sites, computed from the PDB text alone (oracle of C01, reused by C12/C14/C08).

Written from the property statement: side-chain sites by residue+atom name with the tabulated model pKa values,
amino termini by the streaming chain-start rule (first residue of a model, after a TER record, after a residue that
carries a terminal oxygen), carboxyl termini on every residue carrying a terminal oxygen, disulfide-bridged
cysteines by the S-S distance rule.  Does not import propka.
"""
import os

from vlib import pdbio, refs
from vlib.pdbio import Atom

SIDECHAIN = {("ASP", "CG"): ("ASP", 3.80), ("GLU", "CD"): ("GLU", 4.50), ("HIS", "CG"): ("HIS", 6.50),
             ("CYS", "SG"): ("CYS", 9.00), ("TYR", "OH"): ("TYR", 10.00), ("LYS", "NZ"): ("LYS", 10.50),
             ("ARG", "CZ"): ("ARG", 12.50)}
NTERM_PKA, CTERM_PKA = 8.00, 3.20
IGNORABLE = ("HOH", "H2O", "SO4", "PO4", "PEG", "EPE", "TRS")


def read_cfg(path=None):
    """Tiny independent reader of propka.cfg-style files into plain dicts (model_pkas, charge, ions, ...)."""
    if path is None:
        path = os.path.join(os.environ.get("VERIF_REPO", "/repo"), "propka", "propka.cfg")
    out = {}
    with open(path) as fh:
        for line in fh:
            line = line.split("#", 1)[0]
            w = line.split()
            if len(w) < 2:
                continue
            out.setdefault(w[0], []).append(w[1:])
    cfg = {"raw": out}
    for key in ("model_pkas", "charge", "ions", "custom_model_pkas"):
        cfg[key] = {w[0]: float(w[1]) for w in out.get(key, []) if len(w) == 2}
    cfg["ignore_residues"] = [w[0] for w in out.get("ignore_residues", [])]
    cfg["write_out_order"] = [w[0] for w in out.get("write_out_order", [])]
    return cfg


def expected_sites(text, chains=None, titrate_only=None, ignorable=IGNORABLE):
    """Return {model number: [site dict]} with site = {key, kind, model_pka, resid, bridged}.

    ``key`` is the index of the defining atom among the ATOM/HETATM records of ``text``.  Only protein sites
    (ATOM records); hetero groups are checked separately."""
    entries = pdbio.parse(text)
    atoms = pdbio.atoms_of(entries)
    index = {id(a): i for i, a in enumerate(atoms)}
    # sulfur atoms for the disulfide rule (all S atoms that take part in the calculation, any record type)
    by_model = {}
    chain_start = True
    oxt_residue = None
    cur_res = None
    nterm_res = None
    model = 1
    for e in entries:
        if not isinstance(e, Atom):
            if e.startswith("MODEL "):
                chain_start = True
                nterm_res = None
            if e[:6] == "TER   ":
                chain_start = True
                nterm_res = None
            continue
        a = e
        model = a.model
        if a.resn.strip() in ignorable:
            continue
        if chains is not None and a.chain not in chains:
            continue
        sites = by_model.setdefault(model, [])
        resid = (a.chain, a.resnum, a.icode)
        if a.rec == "ATOM":
            if chain_start and resid != oxt_residue:
                # this residue is the first one of a chain
                nterm_res = resid
                chain_start = False
                oxt_residue = None
            if a.aname == "N" and nterm_res == resid and not a.is_h:
                sites.append({"key": index[id(a)], "kind": "N+", "model_pka": NTERM_PKA, "resid": resid})
            elif a.aname in pdbio.TERMINAL_O:
                sites.append({"key": index[id(a)], "kind": "C-", "model_pka": CTERM_PKA, "resid": resid})
                chain_start = True
                nterm_res = None
                oxt_residue = resid
            elif (a.resn, a.aname) in SIDECHAIN and not a.is_h:
                kind, pka = SIDECHAIN[(a.resn, a.aname)]
                sites.append({"key": index[id(a)], "kind": kind, "model_pka": pka, "resid": resid})
    # disulfide bridges: S-S within 2.5 A among the atoms that take part (same model)
    for model, sites in by_model.items():
        sulfurs = [a for a in atoms if a.model == model and a.element == "S" and a.resn.strip() not in ignorable
                   and (chains is None or a.chain in chains)]
        for s in sites:
            s["bridged"] = False
            if s["kind"] == "CYS":
                me = atoms[s["key"]]
                s["bridged"] = any(o is not me and refs.ref_bonded("S", me.xyz, "S", o.xyz)[0] for o in sulfurs)
        if titrate_only is not None:
            lst = set(titrate_only)
            sites[:] = [s for s in sites if s["resid"] in lst]
    return by_model
