"""Independent reference models (the oracles' trusted base).  Nothing here imports propka."""
import math
import string

# ---------------------------------------------------------------------------------------------------------------
# C20: closed-form Rodrigues rotation


def rodrigues(theta, axis, vec):
    ax, ay, az = axis
    n = math.sqrt(ax * ax + ay * ay + az * az)
    kx, ky, kz = ax / n, ay / n, az / n
    vx, vy, vz = vec
    c, s = math.cos(theta), math.sin(theta)
    dot = kx * vx + ky * vy + kz * vz
    cx, cy, cz = ky * vz - kz * vy, kz * vx - kx * vz, kx * vy - ky * vx
    return (vx * c + cx * s + kx * dot * (1 - c),
            vy * c + cy * s + ky * dot * (1 - c),
            vz * c + cz * s + kz * dot * (1 - c))


# ---------------------------------------------------------------------------------------------------------------
# C19: hybrid-36 (written from the published format description: decimal, then upper-case base 36, then lower-case
# base 36, each segment continuing where the previous one ends)

_DIGITS_UPPER = string.digits + string.ascii_uppercase
_DIGITS_LOWER = string.digits + string.ascii_lowercase


def _enc_pure(digits, width, value):
    out = []
    for _ in range(width):
        value, r = divmod(value, 36)
        out.append(digits[r])
    assert value == 0
    return "".join(reversed(out))


def hy36_range(width):
    """(min, max) integer representable in a field of this width."""
    lo = -(10 ** (width - 1) - 1) if width > 1 else 0
    hi = 10 ** width + 2 * 26 * 36 ** (width - 1) - 1
    return lo, hi


def hy36_encode(width, value):
    """Standard hybrid-36 encoding of ``value`` in a field of ``width`` characters (unpadded for negatives/short)."""
    lo, hi = hy36_range(width)
    if not lo <= value <= hi:
        raise ValueError("value out of range")
    if value < 10 ** width:
        return str(value)                      # decimal segment (caller pads)
    value -= 10 ** width
    span = 26 * 36 ** (width - 1)
    if value < span:
        return _enc_pure(_DIGITS_UPPER, width, value + 10 * 36 ** (width - 1))
    value -= span
    return _enc_pure(_DIGITS_LOWER, width, value + 10 * 36 ** (width - 1))


# ---------------------------------------------------------------------------------------------------------------
# C09 / C10: Henderson-Hasselbalch and proton linkage

def hh_charge(q, pka, ph):
    """Charge of a site with formal charge q (sign and magnitude) at pH: base q/(1+10^(pH-pKa)), acid likewise."""
    x = q * (pka - ph)
    # q*10^x/(1+10^x), overflow-safe
    if x > 300:
        return float(q)
    t = 10.0 ** x
    return q * (t / (1.0 + t))


def total_charge(sites, ph):
    return sum(hh_charge(q, pka, ph) for q, pka in sites)


def hy36_classify(s):
    """Classify a field: ('decimal'|'upper'|'lower', sign, body) for well-formed fields, 'malformed', or
    'unspecified' (a sign followed by a letter form: the format description does not cover it).
    Surrounding blanks are padding.  Only ASCII is well-formed."""
    body = s.strip(" ")
    if body != s.strip():
        return "unspecified"            # other whitespace used as padding: not covered by the statement
    sign = 1
    if body.startswith("-"):
        sign = -1
        body = body[1:]
    if body == "":
        return "malformed"
    first = body[0]
    if first in string.digits:
        return ("decimal", sign, body) if all(c in string.digits for c in body) else "malformed"
    if first in string.ascii_uppercase:
        ok = all(c in _DIGITS_UPPER for c in body)
        if not ok:
            return "malformed"
        return "unspecified" if sign < 0 else ("upper", sign, body)
    if first in string.ascii_lowercase:
        ok = all(c in _DIGITS_LOWER for c in body)
        if not ok:
            return "malformed"
        return "unspecified" if sign < 0 else ("lower", sign, body)
    return "malformed"


def hy36_decode_ref(s):
    """Reference decoder for well-formed fields (None for malformed/unspecified)."""
    c = hy36_classify(s)
    if not isinstance(c, tuple):
        return None
    kind, sign, body = c
    w = len(body)
    if kind == "decimal":
        return sign * int(body)
    digits = _DIGITS_UPPER if kind == "upper" else _DIGITS_LOWER
    v = 0
    for ch in body:
        v = v * 36 + digits.index(ch)
    v -= 10 * 36 ** (w - 1)             # first letter form ('A00..0') is the first value after the previous segment
    v += 10 ** w
    if kind == "lower":
        v += 26 * 36 ** (w - 1)
    return v


# ---------------------------------------------------------------------------------------------------------------
# C11 / C04 / C17: the covalent-bond rule on exact integer (milli-Angstrom) coordinates.  Thresholds squared, in
# milli-A^2: heavy-heavy < 2.0 A, X-H < 1.5 A, S-S < 2.5 A, F-F < 1.7 A, never H-H.

BOND_DEFAULT2 = 2000 ** 2
BOND_H2 = 1500 ** 2
BOND_SS2 = 2500 ** 2
BOND_FF2 = 1700 ** 2


def bond_threshold2(e1, e2):
    """Squared bonding threshold for an element pair, or None if the pair never bonds."""
    nh = (e1 == "H") + (e2 == "H")
    if nh == 2:
        return None
    if nh == 1:
        return BOND_H2
    if e1 == "S" and e2 == "S":
        return BOND_SS2
    return BOND_DEFAULT2          # F-F: 1.7 A is below the default 2.0 A, so the default already covers it


def ref_bonded(e1, xyz1, e2, xyz2):
    """(bonded, tie): tie is True when the squared distance equals the threshold exactly."""
    t = bond_threshold2(e1, e2)
    if t is None:
        return False, False
    d2 = (xyz1[0] - xyz2[0]) ** 2 + (xyz1[1] - xyz2[1]) ** 2 + (xyz1[2] - xyz2[2]) ** 2
    return d2 < t, d2 == t
