"""C01 - every ionizable group is predicted exactly once with the right model pKa.

Oracle: the independent census of vlib.census (computed from the PDB text: side-chain sites by residue+atom name,
termini by the streaming chain-start rule, disulfide bridges by the S-S distance rule, tabulated model pKa values)
must be in bijection with the reported groups of every conformation and of the average, and with the parsed summary
rows of the .pka file; hetero groups must carry the model pKa / charge configured for their type (parameter file
read by an independent reader) and library ligands must yield their chemically expected group types.
"""
import collections

from hypothesis import strategies as st

from vlib import gen, observe, pdbio, common, census, pkaparse
from vlib.pdbio import Atom
from props import c13, c14

PROPERTY = "C01"
REDUCE_KEYS = ["pdb"]
LEVEL = "exploration"
RULE = ("structures (1-4 chains, chain breaks with and without TER, OXT present/absent/not last atom, negative/"
        "gapped/>999/insertion-coded numbering, blank/digit/lower-case chain ids, hetero-first files, library ligands "
        "of every group type, every ion name, truncated residues, threaded mutations, 1-2 identical MODELs) x options "
        "{none, -c subset, -i subset}; one residue as alternate locations A/B (side chain or whole residue, often the "
        "first residue of the file). Non-trivial: >= 2 expected sites and at least one of: >= 2 chains, TER-less "
        "break, OXT not last, insertion code, negative number, ligand/ion, truncation, option; distinct by hash of "
        "(input, options).")
ASSUMPTIONS = [
    "a group discarded through covalent coupling (e.g. the side chain of an N-terminal ASP/CYS, coupled to its own "
    "N+) must be present in the API results but is, by design of the shipped parameters (remove_penalised_group), "
    "absent from the determinant table and summary; the check requires exactly that",
    "multi-conformation census only with identical composition (C08 owns the rest); alternate locations are resolved",
    "open finding F5: a mismatch confined to residues that share chain+number (insertion-code twins) is excluded",
]

TITRATABLE_LIGAND_TYPES = None


def check_case(case):
    text, opt = case["pdb"], case.get("optargs", [])
    chains = None
    tonly = None
    for i, o in enumerate(opt):
        if o == "-c":
            chains = (chains or []) + [opt[i + 1]]
        if o == "-i":
            tonly = []
            for item in opt[i + 1].split(","):
                ch, rest = item.split(":")
                try:
                    tonly.append((ch, int(rest), " "))
                except ValueError:
                    tonly.append((ch, int(rest[:-1]), rest[-1]))
    rec = observe.run(text, opt, name="a")
    exp = census.expected_sites(text, chains=chains, titrate_only=tonly)
    labels = []
    v = []
    n_exp = sum(len(s) for s in exp.values())
    if rec["error"]:
        any_atoms = any(True for m in exp)
        if rec["error"]["type"] == "ValueError" and "conformations" in rec["error"]["msg"]:
            return [], {"labels": ["rejected-empty"]}
        return [{"clause": "runs", "detail": repr(rec["error"])}], {"labels": labels}
    cfg = census.read_cfg()
    atoms = pdbio.atoms_of(pdbio.parse(text))
    twins_present = bool(common.twin_atoms(pdbio.parse(text)))
    # ---- (i)+(ii): bijection with the reported protein groups of each conformation ----
    for cname in rec["conf_names"]:
        model = int(cname[:-1])
        want = collections.Counter((s["key"], s["kind"]) for s in exp.get(model, []))
        groups = [g for g in rec["confs"][cname]["groups"] if g["reported"] and not g["hetatm"]]
        got = collections.Counter((g["key"], g["rtype"]) for g in groups)
        if want != got:
            missing = list((want - got).elements())[:4]
            extra = list((got - want).elements())[:4]
            keys = [k for k, _ in missing + extra]
            v.append({"clause": "census-bijection", "detail": "conf %s: missing %s, not expected %s" % (
                cname, [(k, kind, atoms[k].line()[13:27] if isinstance(k, int) else k) for k, kind in missing],
                [(k, kind, atoms[k].line()[13:27] if isinstance(k, int) else k) for k, kind in extra]),
                "sig": common.twin_sig(text, keys) if twins_present else None})
            break
        by = {(s["key"], s["kind"]): s for s in exp.get(model, [])}
        for g in groups:
            s = by[(g["key"], g["rtype"])]
            if abs(g["model_pka"] - s["model_pka"]) > 1e-12:
                v.append({"clause": "model-pka", "detail": "%s model pKa %r, tabulated %r" % (
                    g["label"], g["model_pka"], s["model_pka"])})
            if s.get("bridged"):
                if g["titratable"] or g["pka"] != 99.99:
                    v.append({"clause": "bridged-cys", "detail": "%s in a disulfide bridge: titratable=%r pKa=%r" % (
                        g["label"], g["titratable"], g["pka"])})
            elif not g["titratable"] or g["bridge"]:
                v.append({"clause": "titratable-flag", "detail": "%s not titratable / flagged bridged without an S-S "
                          "partner within 2.5 A" % g["label"]})
        if v:
            break
        # ---- (iv) hetero groups ----
        het = [g for g in rec["confs"][cname]["groups"] if g["hetatm"] or g["type"] == "ION"]
        per_res = collections.defaultdict(list)
        for g in het:
            if g["type"] == "ION":
                want_q = cfg["ions"].get(g["resname"].strip())
                if want_q is None or g["charge"] != want_q:
                    v.append({"clause": "ion-charge", "detail": "%s (%s) charge %r, configured %r" % (
                        g["label"], g["resname"], g["charge"], want_q)})
                continue
            per_res[(g["chain"], g["resnum"], g["resname"].strip())].append(g["type"])
            t = g["type"]
            listed = tonly is None or (g["chain"], g["resnum"], g["icode"]) in set(tonly)
            if t in cfg["model_pkas"]:
                if g["titratable"] != listed or abs(g["model_pka"] - cfg["model_pkas"][t]) > 1e-12:
                    v.append({"clause": "ligand-model-pka", "detail": "%s type %s model pKa %r titratable %r, "
                              "configured %r" % (g["label"], t, g["model_pka"], g["titratable"], cfg["model_pkas"][t])})
                if g["charge"] != cfg["charge"].get(t):
                    v.append({"clause": "ligand-charge", "detail": "%s type %s charge %r, configured %r" % (
                        g["label"], t, g["charge"], cfg["charge"].get(t))})
            elif g["titratable"]:
                v.append({"clause": "ligand-model-pka", "detail": "%s type %s titratable without configured model pKa"
                          % (g["label"], t)})
        # every hetero residue whose name is a configured ion yields exactly one ion group per atom
        want_ions = collections.Counter()
        for a in atoms:
            if a.model == model and a.resn.strip() in cfg["ions"] and not a.is_h and \
                    a.resn.strip() not in census.IGNORABLE and (chains is None or a.chain in chains):
                want_ions[(a.chain.strip() or "_", a.resnum, a.resn.strip())] += 1
        got_ions = collections.Counter((g["chain"], g["resnum"], g["resname"].strip()) for g in het
                                       if g["type"] == "ION")
        if want_ions != got_ions:
            v.append({"clause": "ion-groups", "detail": "ion groups %r, ion residues in the file %r" % (
                sorted((got_ions - want_ions).elements())[:3], sorted((want_ions - got_ions).elements())[:3])})
        # library ligands: chemically expected multiset of group types
        seen_res = set()
        for a in atoms:
            if a.rec == "HETATM" and a.model == model and a.resn.strip() in gen.LIGANDS and \
                    (chains is None or a.chain in chains):
                seen_res.add((a.chain.strip() or "_", a.resnum, a.resn.strip()))
        for key in seen_res:
            want_t = sorted("CL" if t == "Cl" else t for t in gen.LIGANDS[key[2]]["expect"])
            got_t = sorted(per_res.get(key, []))
            if want_t != got_t:
                v.append({"clause": "ligand-group-types", "detail": "ligand %s %s%d: group types %r, expected %r" % (
                    key[2], key[0], key[1], got_t, want_t)})
        if v:
            break
    # ---- (iii) summary rows of the .pka file == reported AVR groups that are not discarded by coupling ----
    if not v and rec["pka_text"] is not None and "-d" not in opt:
        parsed = pkaparse.parse(rec["pka_text"])
        if parsed["errors"]:
            v.append({"clause": "summary-parse", "detail": parsed["errors"][0]})
        avr = [g for g in rec["confs"]["AVR"]["groups"] if g["reported"]]
        want = collections.Counter()
        for g in avr:
            if g["ctg"] is not None:
                continue
            want[(g["label"].rjust(9), "%.2f" % g["pka"], "%.2f" % g["model_pka"])] += 1
        got = collections.Counter((r["label"], r["pka"], r["model_pka"]) for r in parsed["summary"])
        if want != got:
            # tolerate rounding ties: compare labels and model pKa exactly, pKa as a correct rounding
            wl = collections.Counter((k[0], k[2]) for k in want.elements())
            gl = collections.Counter((k[0], k[2]) for k in got.elements())
            ok = wl == gl
            if ok:
                vals = collections.defaultdict(list)
                for g in avr:
                    vals[g["label"].rjust(9)].append(g["pka"])
                for r in parsed["summary"]:
                    if not any(pkaparse.is_rounding_of(r["pka"], x, 2) for x in vals[r["label"]]):
                        ok = False
            if not ok:
                v.append({"clause": "summary-bijection", "detail": "summary rows %s vs reported groups %s" % (
                    sorted((got - want).elements())[:4], sorted((want - got).elements())[:4]),
                    "sig": "icode-twin" if twins_present else None})
        # every expected site of the union of conformations is in AVR exactly once
        want_avr = collections.Counter()
        for model, sites in exp.items():
            for s in sites:
                a = atoms[s["key"]]
                want_avr[(a.chain, a.resnum, a.icode, a.aname, s["kind"])] |= 1
        # hetero groups: every group reported in some conformation is reported once in the average
        for cname in rec["conf_names"]:
            for g in rec["confs"][cname]["groups"]:
                if g["hetatm"] and g["reported"] and g["key"] is not None:
                    a = atoms[g["key"]]
                    want_avr[(a.chain, a.resnum, a.icode, a.aname, g["rtype"])] |= 1
        got_avr = collections.Counter()
        for g in avr:
            if g["key"] is None:
                continue
            a = atoms[g["key"]]
            got_avr[(a.chain, a.resnum, a.icode, a.aname, g["rtype"])] += 1
        want_avr = collections.Counter({k: 1 for k in want_avr})
        if want_avr != got_avr:
            v.append({"clause": "average-census", "detail": "AVR: missing %s, unexpected/duplicated %s" % (
                sorted((want_avr - got_avr).elements())[:4], sorted((got_avr - want_avr).elements())[:4]),
                "sig": "icode-twin" if twins_present else None})
    labels.append("sites:%s" % ("0" if n_exp == 0 else "1" if n_exp == 1 else "2-9" if n_exp < 10 else "10+"))
    return v, {"labels": labels, "n_exp": n_exp}


def check_altloc(case):
    """Alternate locations: the conformation named after a tag consists of the untagged atoms and the atoms of that
    tag; its reported protein groups must be in bijection (kind + residue) with the census of that resolved text."""
    text = case["pdb"]
    ents = pdbio.parse(text)
    atoms = pdbio.atoms_of(ents)
    tags = sorted({a.alt for a in atoms if a.alt != " "})
    rec = observe.run(text, [], name="a")
    if rec["error"]:
        return [{"clause": "runs", "detail": repr(rec["error"])}], {"labels": []}
    v = []
    n = 0
    for tag in tags:
        cname = "1" + tag
        if cname not in rec["confs"]:
            v.append({"clause": "conformation-per-tag", "detail": "no conformation %s among %r" % (cname, rec["conf_names"])})
            continue
        res = []
        for e in ents:
            if isinstance(e, Atom):
                if e.alt not in (" ", tag):
                    continue
                e = e.copy()
                e.alt = " "
            res.append(e)
        rtext = pdbio.write(res)
        ratoms = pdbio.atoms_of(pdbio.parse(rtext))
        want = collections.Counter()
        for s in census.expected_sites(rtext).get(1, []):
            a = ratoms[s["key"]]
            want[(s["kind"], a.chain, a.resnum, a.icode, "%.2f" % s["model_pka"])] += 1
        got = collections.Counter()
        for g in rec["confs"][cname]["groups"]:
            if g["reported"] and not g["hetatm"] and isinstance(g["key"], int):
                a = atoms[g["key"]]
                got[(g["rtype"], a.chain, a.resnum, a.icode, "%.2f" % g["model_pka"])] += 1
        n += sum(want.values())
        if want != got:
            missing, extra = list((want - got).elements()), list((got - want).elements())
            sig = None
            if len(missing) == 1 and missing[0][0] == "N+" and not extra:
                # open finding F23: a one-residue chain (N and terminal oxygen in one residue) listed as whole-residue
                # alternates gets its amino terminus only in the first alternate
                own = [a for a in atoms if (a.chain, a.resnum, a.icode) == missing[0][1:4]]
                if any(a.aname in pdbio.TERMINAL_O for a in own) and all(a.alt != " " for a in own if a.aname == "N") \
                        and tag != tags[0]:
                    sig = "one-residue-chain-alternates"
            v.append({"clause": "census-bijection", "sig": sig, "detail": "conf %s: missing %s, not expected %s" % (
                cname, missing[:4], extra[:4])})
            break
    return v, {"labels": ["alternate-locations", "tags:%d" % len(tags)], "nontrivial": n >= 2 and len(tags) >= 2}


def replay(case):
    if case.get("altloc"):
        return check_altloc(case)[0]
    return check_case(case)[0]


def run_shard(ctx):
    quick = ctx.tier == "quick"

    # one residue (often the first of the file, i.e. a chain start) present twice as alternate locations A and B,
    # either its side chain or the whole residue with backbone and terminal oxygen
    @st.composite
    def alt_cases(draw):
        s = draw(gen.structures(max_res=16 if quick else 40, allow_hetero=False, allow_icode=False,
                                distinct_chain_ids=True))
        pick = draw(st.one_of(st.just(0), st.integers(0, 40)))
        whole = draw(st.booleans())
        ents, changed = gen.with_alternate_location(s.entries, pick, whole=whole)
        return s, pdbio.write(ents), changed, whole, pick

    def alt_body(t):
        s, text, changed, whole, pick = t
        if not changed:
            return
        if common.twin_atoms(pdbio.parse(text)):
            # insertion-code twins are one residue to the bookkeeping that completes conformations (open finding F5);
            # the main census stage covers them with its signature, this stage leaves them out by construction
            ctx.labels["skipped:icode-twins"] += 1
            return
        case = {"pdb": text, "altloc": True}
        v, info = check_altloc(case)
        info["labels"] = info.get("labels", []) + ["alt:whole-residue" if whole else "alt:side-chain"] + \
            (["alt:first-residue"] if pick == 0 else [])
        info["sample"] = {"structure": s.summary(), "whole_residue": whole, "pick": pick}
        ctx.account(case, v, info)

    ctx.hypothesis_stage("alternate-locations", alt_cases(), alt_body, 240 if quick else 5000)

    @st.composite
    def cases(draw):
        s = draw(gen.structures(max_res=32 if quick else 70, distinct_chain_ids=False))
        text = s.text
        labels = list(s.labels)
        entries = s.entries
        if draw(st.integers(0, 5)) == 0:
            body = [e for e in entries if isinstance(e, Atom) or e.startswith("TER")]
            text = "MODEL        1\n" + pdbio.write(body) + "ENDMDL\nMODEL        2\n" + pdbio.write(body) + "ENDMDL\n"
            labels.append("two-models")
        if "hetero-first" not in labels and "two-models" not in labels and any(l.startswith("ion:") for l in labels) \
                and draw(st.integers(0, 3)) == 0:
            # ions written as ATOM records (modelling tools do): allowed only where they cannot be mistaken for the
            # start of a chain, i.e. in the trailing hetero block after a terminated chain
            ents = pdbio.parse(text)
            last_ter = max((i for i, e in enumerate(ents) if isinstance(e, str) and e.startswith("TER")), default=None)
            if last_ter is not None and all(isinstance(e, Atom) and e.rec == "HETATM" or not isinstance(e, Atom)
                                            for e in ents[last_ter + 1:]):
                for e in ents[last_ter + 1:]:
                    if isinstance(e, Atom) and e.resn.strip() in gen.IONS:
                        e.rec = "ATOM"
                text = pdbio.write(ents)
                labels.append("ion-as-ATOM")
        mode = draw(st.sampled_from(["none", "none", "none", "chains", "titrate"]))
        opt = []
        if mode == "chains":
            ids = c13.chain_ids(pdbio.parse(text))
            k = draw(st.integers(1, len(ids)))
            for c in draw(st.permutations(ids))[:k]:
                opt += ["-c", c]
            labels.append("opt:-c")
        elif mode == "titrate" and not any(a.chain == " " for a in pdbio.atoms_of(entries)):
            ids = c14.residue_ids(pdbio.parse(text))
            lst = [r for r in ids if draw(st.booleans())] or ids[:1]
            opt = ["-i", c14.render(lst)]
            labels.append("opt:-i")
        return s, text, opt, labels

    def body(t):
        s, text, opt, labels = t
        case = {"pdb": text, "optargs": opt}
        v, info = check_case(case)
        interesting = [l for l in labels if l.startswith(("chains:", "no-ter-break", "oxt-not-last", "icode",
                                                          "negative-numbers", "lig:", "ion:", "truncated", "opt:",
                                                          "two-models", "hetero-first", "blank-chain", "mutated",
                                                          "clash", "ion-as-ATOM"))]
        info["nontrivial"] = info.get("n_exp", 0) >= 2 and bool(interesting)
        info["labels"] = info.get("labels", []) + [l.split(":")[0] if l.startswith(("lig:", "ion:", "chains:"))
                                                   else l for l in interesting] + \
            [l for l in labels if l.startswith(("lig:", "ion:"))]
        info["sample"] = {"structure": s.summary(), "optargs": [o[:120] for o in opt]}
        ctx.account(case, v, info)

    ctx.hypothesis_stage("census", cases(), body, 3000 if quick else 40000)

    # disulfide contacts of every length the distance table allows, along the coordinate axes and diagonals, at
    # arbitrary offsets relative to the neighbour-search grid
    def ss_body(t):
        ents, info = t
        case = {"pdb": pdbio.write(ents), "optargs": []}
        v, ci = check_case(case)
        ci["nontrivial"] = True
        ci["labels"] = ci.get("labels", []) + ["disulfide-contact", "axis-parallel" if sorted(map(abs, info["direction"]))[1] == 0
                                               else "oblique"]
        ci["sample"] = {"structure": "two chains joined by an S-S contact", **info}
        ctx.account(case, v, ci)

    ctx.hypothesis_stage("disulfide-contacts", gen.bridged_chains(), ss_body, 1500 if quick else 20000)

    # every library ligand and every ion name at least once per run, next to a corpus peptide
    names = sorted(gen.LIGANDS) + sorted(gen.IONS)
    mine = [names[i] for i in ctx.my_slice(len(names))]
    base = [a for a in pdbio.atoms_of(pdbio.parse(gen.corpus_text("1FTJ-Chain-A"))) if a.rec == "ATOM"
            and a.resnum < 30]
    b0, b1 = pdbio.bbox(base)

    def lib_body(name):
        if name in gen.LIGANDS:
            resn, mol = gen.LIGANDS[name]["resn"], gen.LIGANDS[name]["atoms"]
        else:
            resn, mol = name, [(gen.IONS[name], 0, 0, 0)]
        het = gen.hetero_residue(resn, mol, "L", 500, pdbio.ROTATIONS[7], (b1[0] + 4000, b0[1], b0[2]))
        entries = list(base) + [gen.ter_line(base[-1])] + het
        pdbio.renumber_serials(entries)
        case = {"pdb": pdbio.write(entries), "optargs": []}
        v, info = check_case(case)
        info["nontrivial"] = True
        info["labels"] = ["library:" + name]
        info["sample"] = {"structure": "1FTJ residues < 30 + library entry " + name}
        ctx.account(case, v, info)

    ctx.loop_stage("ligand-and-ion-library", mine, lib_body, exhaustive=True)
