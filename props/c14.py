"""C14 - titrate_only restricts titration exactly to the listed residues.

Oracles: (i) the reported groups with the option are exactly the reported groups of the option-free run that lie in
listed residues (matched by chain, number, insertion code), with unchanged titratable flags, and no unlisted group
titrates; (ii) environment terms of listed groups (desolvation, buried count, backbone determinants, side-chain
determinants towards non-iterative partners) equal the option-free run; Coulomb determinants only name listed
partners or ions; (iii) listing every residue == no option; (iv) phantom entries change nothing.
"""
from hypothesis import strategies as st

from vlib import gen, observe, pdbio, common
from vlib.pdbio import Atom

PROPERTY = "C14"
REDUCE_KEYS = ["pdb"]
LEVEL = "exploration"
RULE = ("structures (several chains incl. lower-case/digit ids, insertion codes, negative numbers, ligands, ions, "
        "bridged and free CYS) x residue lists rendered as chain:num[icode]: random subsets, singletons, all residues, "
        "lists with phantom residues/chains, duplicates, any order, alone or together with a chain selection (-c); one "
        "command-line invocation over two files with one list; API histories in which one options object serves "
        "2-3 calculations with different lists. Non-trivial: a listed reported group has, in the "
        "option-free run, determinants from both listed and unlisted partners (or, for the all-residues clause, the "
        "structure has >= 2 groups with determinants); distinct by hash of (input, list).")
ASSUMPTIONS = [
    "a blank chain identifier is spelled '_' in the list (the spelling the program itself prints in every label and "
    "accepts on the unchanged tree) and ' ' after -c; half of the cases avoid blank chains altogether",
    "residue pairs that differ only in insertion code are covered for the census clause; numeric clauses on such "
    "structures inherit known finding F5 only through C06, not here (the comparison is within one labelling)",
]


def residue_ids(entries):
    out = []
    for (m, c, n, i, t), ats in pdbio.residues(entries):
        c = c if c.strip() else "_"
        if (c, n, i) not in out and t.strip() not in gen.IGNORABLE:
            out.append((c, n, i))
    return out


def render(ids):
    return ",".join("%s:%d%s" % (c, n, i.strip()) for c, n, i in ids)


def gres(g):
    return (g["chain"], g["resnum"], g["icode"])


def check_case(case):
    text, listed = case["pdb"], [tuple(x) for x in case["listed"]]
    phantoms = [tuple(x) for x in case.get("phantoms", [])]
    copt = []
    for c in case.get("chains") or []:
        copt += ["-c", " " if c == "_" else c]
    r0 = observe.run(text, copt, name="a", keep_mol=True)
    if r0["error"]:
        return [], {"labels": ["base-error"]}
    arg = render(listed + phantoms)
    r1 = observe.run(text, copt + ["-i", arg], name="a")
    v = []
    if r1["error"]:
        return [{"clause": "titrate-only-runs", "detail": "error with -i %s: %r" % (arg[:80], r1["error"])}], {}
    mol = r0.pop("_mol")
    matrix = mol.version.parameters.interaction_matrix
    ion_names = set(mol.version.parameters.ions.keys())
    lset = set(listed)
    nontrivial = False
    labels = []
    for c in r0["conf_names"] + ["AVR"]:
        g0 = {(g["key"], g["type"]): g for g in r0["confs"][c]["groups"]}
        g1 = {(g["key"], g["type"]): g for g in r1["confs"][c]["groups"]}
        exp = {k for k, g in g0.items() if g["reported"] and gres(g) in lset}
        got = {k for k, g in g1.items() if g["reported"]}
        if exp != got:
            miss = [g0[k]["label"] for k in exp - got][:4]
            extra = [g1[k]["label"] for k in got - exp][:4]
            v.append({"clause": "reported==listed", "detail": "conf %s: missing %r, unexpected %r (list %s)" % (
                c, miss, extra, arg[:100])})
            break
        if c == "AVR":
            continue
        for k, g in g1.items():
            if g["titratable"] and gres(g) not in lset:
                v.append({"clause": "unlisted-not-titratable", "detail": "%s titratable but not listed" % g["label"]})
                break
            if k in exp and g["titratable"] != g0[k]["titratable"]:
                v.append({"clause": "listed-keeps-titratable-flag", "detail": "%s titratable %r -> %r" % (
                    g["label"], g0[k]["titratable"], g["titratable"])})
                break
        if v:
            break
        # environment clause
        type_of = {g["key"]: g for g in r0["confs"][c]["groups"] if g["type"] not in ("BBN", "BBC")}
        penalised = {g["label"] for rr in (r0, r1) for g in rr["confs"][c]["groups"] if g["ctg"] is not None}
        for k in exp:
            a, b = g0[k], g1[k]
            if not b["titratable"]:
                continue
            d = observe.compare_groups(a, b, tol=1e-9, fields=("evol", "eloc", "buried"), check_dets=False)
            if a["nvol"] != b["nvol"]:
                d.append("nvol %r vs %r" % (a["nvol"], b["nvol"]))
            # determinants whose partner label is penalised through covalent coupling in either run are removed by
            # label in that run only (remove_penalised_group): not part of the environment claim
            def dets(g, t):
                return sorted(((pk if pk is not None else -1), val) for pk, lab, val in g["dets"][t]
                              if lab not in penalised)
            da = {t: dets(a, t) for t in observe.DET_TYPES}
            db = {t: dets(b, t) for t in observe.DET_TYPES}
            if len(da["backbone"]) != len(db["backbone"]) or any(
                    x[0] != y[0] or abs(x[1] - y[1]) > 1e-9 for x, y in zip(da["backbone"], db["backbone"])):
                d.append("backbone determinants %r vs %r" % (da["backbone"], db["backbone"]))

            def non_iter(lst):
                out = []
                for pk, val in lst:
                    p = type_of.get(pk)
                    if p is not None and matrix.get_value(a["type"], p["type"]) == "N":
                        out.append((pk, val))
                return out
            sa, sb = non_iter(da["sidechain"]), non_iter(db["sidechain"])
            # set_determinants stops scanning partners at the first covalently coupled one, and coupling is only
            # established between titratable groups: the side-chain list of a covalently coupled group legitimately
            # differs between the two runs
            if a["cov"] or b["cov"] or any(type_of[pk]["cov"] for pk, _v in sa + sb):
                sa = sb = []
                labels.append("covalent-coupling-skip")
            if len(sa) != len(sb) or any(x[0] != y[0] or abs(x[1] - y[1]) > 1e-9 for x, y in zip(sa, sb)):
                d.append("non-iterative side-chain determinants %r vs %r" % (sa, sb))
            # an unlisted partner of an iterative like-charge pair (acid-acid, base-base) still acts as hydrogen-bond
            # partner: such pairs always exchange side-chain determinants, whatever the iteration decides
            if not (a["cov"] or b["cov"]):
                for pk, lab, val in a["dets"]["sidechain"]:
                    p_ = type_of.get(pk)
                    if p_ is None or lab in penalised or gres(p_) in lset or p_["cov"]:
                        continue
                    if matrix.get_value(a["type"], p_["type"]) == "I" and p_["charge"] * a["charge"] > 0 \
                            and abs(val) > 0.02:
                        if not any(pk2 == pk for pk2, _l, _v in b["dets"]["sidechain"]):
                            d.append("hydrogen bond with unlisted %s (iterative like-charge pair, %r without the "
                                     "option) disappeared" % (lab, val))
            if d:
                v.append({"clause": "environment-unchanged", "detail": "%s[%s]: %s" % (a["label"], c, "; ".join(d[:2])),
                          "sig": common.twin_sig(text, [a["key"]])})
                break
            for pk, lab, val in b["dets"]["coulomb"]:
                p = type_of.get(pk)
                if p is None:
                    continue
                if gres(p) not in lset and p["rtype"] not in ion_names:
                    v.append({"clause": "coulomb-only-from-listed", "detail": "%s has Coulomb determinant from "
                              "unlisted %s" % (b["label"], p["label"])})
                    break
            partners = [type_of.get(pk) for t in observe.DET_TYPES for pk, _v in da[t]]
            partners = [p for p in partners if p is not None]
            if any(gres(p) in lset for p in partners) and any(gres(p) not in lset for p in partners):
                nontrivial = True
        if v:
            break
    if case.get("all"):
        diffs = observe.compare_records(r0, r1, tol=1e-9)
        if diffs:
            v.append({"clause": "all-listed==no-option", "detail": common.fmt_diffs(diffs),
                      "sig": common.twin_sig(text, [d["key"] for d in diffs])})
        nontrivial = common.interaction_stats(r0)["with_dets"] >= 2
        labels.append("all-residues")
    if phantoms and not v:
        r2 = observe.run(text, copt + ["-i", render(listed)], name="a") if listed else None
        if r2 is not None:
            diffs = observe.compare_records(r2, r1, tol=0.0)
            if diffs or r2["pka_text"] != r1["pka_text"]:
                v.append({"clause": "phantom-entries-no-effect", "detail": common.fmt_diffs(diffs) or "pka text"})
        labels.append("phantoms")
    return v, {"nontrivial": nontrivial, "labels": labels}


def shared_options_case(case):
    """One options object used for several calculations with different lists (API): every calculation must report
    exactly what a run with fresh options and that list reports."""
    import io
    from propka.input import read_parameter_file, read_molecule_file
    from propka.lib import loadOptions, parse_res_list
    from propka.molecular_container import MolecularContainer
    from propka.parameters import Parameters
    text = case["pdb"]
    options = loadOptions(["shared.pdb"])
    v = []
    for step, listed in enumerate(case["lists"]):
        arg = render([tuple(x) for x in listed]) if listed is not None else None
        want = observe.run(text, ["-i", arg] if arg else [], name="a")
        if want["error"]:
            return [], {"labels": ["base-error"]}
        # the list as an API user assigns it: tuples in the order given (not passed through the option parser)
        options.titrate_only = [(c, int(n), i) for c, n, i in listed] if listed is not None else None
        parameters = read_parameter_file(options.parameters, Parameters())
        mol = MolecularContainer(parameters, options)
        mol = read_molecule_file("shared.pdb", mol, stream=io.StringIO(text))
        mol.calculate_pka()
        got = sorted((g.label, g.pka_value) for g in mol.conformations["AVR"].get_groups_for_calculations())
        exp = sorted((g["label"], g["pka"]) for g in want["confs"]["AVR"]["groups"] if g["reported"])
        if [x[0] for x in got] != [x[0] for x in exp] or any(abs(a[1] - b[1]) > 1e-9 for a, b in zip(got, exp)):
            v.append({"clause": "shared-options==fresh-options", "detail": "calculation %d of %d with one options "
                      "object, list %s: reported %r, a run with fresh options reports %r" % (
                          step + 1, len(case["lists"]), (arg or "none")[:80],
                          [x for x in got if x not in exp][:4], [x for x in exp if x not in got][:4])})
            break
    return v, {"labels": ["shared-options:%d" % len(case["lists"])], "nontrivial": len(case["lists"]) > 1}


def invocation_case(case):
    """propka.run.main over two files with one list: every written file must be the file a run of that input alone with
    the same list writes."""
    import logging
    import os
    import propka.run
    arg = render([tuple(x) for x in case["listed"]])
    names = []
    for n, text in enumerate(case["pdbs"]):
        with open("inv%d.pdb" % n, "w") as fh:
            fh.write(text)
        names.append("inv%d.pdb" % n)
    args = ["-i", arg]
    for fn in names[:-1]:
        args += ["-f", fn]
    args.append(names[-1])
    root = logging.getLogger("")
    before = list(root.handlers)
    err = None
    try:
        propka.run.main([args])
    except BaseException as e:
        if isinstance(e, KeyboardInterrupt):
            raise
        err = "%s: %s" % (type(e).__name__, e)
    finally:
        for h in list(root.handlers):
            if h not in before:
                root.removeHandler(h)
    v = []
    stopped = False              # an input that raises when run alone stops the invocation: later files are not written
    for n, text in enumerate(case["pdbs"]):
        want = observe.run(text, ["-i", arg], name="ref%d" % n)
        if want["error"]:
            stopped = True
        fn = "inv%d.pka" % n
        got = None
        if os.path.exists(fn):
            got = open(fn).read().split("\n", 1)[1]
            os.remove(fn)
        os.remove("inv%d.pdb" % n)
        if want["error"]:
            continue
        if stopped and got is None:
            continue
        if got != want["pka_text"] and not v:
            la, lb = (got or "").splitlines(), want["pka_text"].splitlines()
            i = next((i for i, (x, y) in enumerate(zip(la, lb)) if x != y), min(len(la), len(lb)))
            v.append({"clause": "invocation==single-runs", "detail": "file %d of %d in one invocation with -i %s%s: line "
                      "%d: %r vs %r" % (n + 1, len(names), arg[:60], " (%s)" % err if err else "", i, la[i:i + 1],
                                        lb[i:i + 1])})
    return v, {"labels": ["invocation"], "nontrivial": True}


def replay(case):
    if case.get("kind") == "invocation":
        return invocation_case(case)[0]
    if case.get("kind") == "shared-options":
        return shared_options_case(case)[0]
    return check_case(case)[0]


def run_shard(ctx):
    quick = ctx.tier == "quick"

    @st.composite
    def cases(draw):
        s = draw(gen.structures(max_res=36 if quick else 70, distinct_chain_ids=False))
        entries = [e.copy() if isinstance(e, Atom) else e for e in s.entries]
        if draw(st.booleans()):
            for a in pdbio.atoms_of(entries):
                if a.chain == " ":
                    a.chain = "Q"
        # a blank chain identifier is spelled "_" in the list - the way the program prints it in every label
        ids = residue_ids(entries)
        mode = draw(st.sampled_from(["subset", "subset", "subset", "single", "all", "ionizable"]))
        if mode == "all":
            listed = list(ids)
        elif mode == "single":
            listed = [ids[draw(st.integers(0, len(ids) - 1))]]
        elif mode == "ionizable":
            ion = []
            for (m, c, n, i, t), ats in pdbio.residues(entries):
                if t in gen.IONIZABLE and draw(st.booleans()):
                    ion.append((c if c.strip() else "_", n, i))
            listed = ion or [ids[0]]
        else:
            listed = [r for r in ids if draw(st.booleans())] or [ids[0]]
        listed = draw(st.permutations(listed))
        if draw(st.integers(0, 5)) == 0 and listed:
            listed = list(listed) + [listed[0]]            # duplicate entry
        phantoms = []
        if draw(st.integers(0, 3)) == 0:
            for _ in range(draw(st.integers(1, 3))):
                c = draw(st.sampled_from([ids[0][0], "P", "x"]))
                n = draw(st.sampled_from([9000, -998, 7777]))
                i = draw(st.sampled_from([" ", "Z"]))
                if (c, n, i) not in ids:
                    phantoms.append((c, n, i))
        chains = []
        cids = []
        for r in ids:
            if r[0] not in cids:
                cids.append(r[0])
        if len(cids) >= 2 and (draw(st.integers(0, 3)) == 0 or ("_" in cids and draw(st.booleans()))):
            # together with a chain selection: the list then acts on what the selection kept
            chains = list(draw(st.permutations(cids))[:draw(st.integers(1, len(cids)))])
        return s, pdbio.write(entries), list(listed), phantoms, mode == "all", chains

    def body(t):
        s, text, listed, phantoms, is_all, chains = t
        case = {"pdb": text, "listed": [list(x) for x in listed], "phantoms": [list(x) for x in phantoms],
                "all": is_all, "chains": chains}
        v, info = check_case(case)
        info["labels"] = info.get("labels", []) + [l for l in s.labels if l in ("icode", "negative-numbers")] + \
            (["with-chain-selection"] if chains else [])
        info["sample"] = {"structure": s.summary(), "titrate_only": render(listed + phantoms)[:300]}
        ctx.account(case, v, info)

    ctx.hypothesis_stage("residue-lists", cases(), body, 2000 if quick else 30000)

    # multi-conformation inputs (atoms copied between conformations must still match the list)
    from vlib import genconf

    @st.composite
    def conf_cases(draw):
        text, info = draw(genconf.multi_conformation(max_res=14, kinds=("models", "altloc")))
        entries = pdbio.parse(text)
        for a in pdbio.atoms_of(entries):
            if a.chain == " ":
                a.chain = "Q"
        text = pdbio.write(entries)
        ids = residue_ids(entries)
        mode = draw(st.sampled_from(["all", "subset", "subset"]))
        listed = list(ids) if mode == "all" else ([r for r in ids if draw(st.booleans())] or ids[:1])
        return info, text, listed, mode == "all"

    def conf_body(t):
        info, text, listed, is_all = t
        case = {"pdb": text, "listed": [list(x) for x in listed], "phantoms": [], "all": is_all}
        v, ci = check_case(case)
        ci["labels"] = ci.get("labels", []) + ["multi-conformation"]
        ci["sample"] = {"structure": info["structure"].summary(), "conformations": info["labels"],
                        "titrate_only": render(listed)[:200]}
        ctx.account(case, v, ci)

    ctx.hypothesis_stage("multi-conformation-lists", conf_cases(), conf_body, 500 if quick else 8000)

    @st.composite
    def shared_cases(draw):
        s = draw(gen.structures(max_res=24 if quick else 50, allow_icode=True))
        entries = [e.copy() if isinstance(e, Atom) else e for e in s.entries]
        for a in pdbio.atoms_of(entries):
            if a.chain == " ":
                a.chain = "Q"
        ids = residue_ids(entries)
        lists = []
        for _ in range(draw(st.integers(2, 3))):
            if draw(st.integers(0, 4)) == 0:
                lists.append(None)
            else:
                lists.append(list(draw(st.permutations([list(r) for r in ids if draw(st.booleans())] or [list(ids[0])]))))
        return s, pdbio.write(entries), lists

    def shared_body(t):
        s, text, lists = t
        case = {"kind": "shared-options", "pdb": text, "lists": lists}
        v, info = shared_options_case(case)
        info["sample"] = {"structure": s.summary(), "lists": [render([tuple(x) for x in l])[:80] if l else None
                                                               for l in lists]}
        ctx.account(case, v, info)

    ctx.hypothesis_stage("one-options-object-several-lists", shared_cases(), shared_body, 300 if quick else 4000)

    @st.composite
    def inv_cases(draw):
        a = draw(gen.structures(max_res=20 if quick else 40, allow_icode=True))
        b = draw(gen.structures(max_res=20 if quick else 40, allow_icode=True))
        texts = []
        ids = []
        for s in (a, b):
            entries = [e.copy() if isinstance(e, Atom) else e for e in s.entries]
            for x in pdbio.atoms_of(entries):
                if x.chain == " ":
                    x.chain = "Q"
            texts.append(pdbio.write(entries))
            ids.append(residue_ids(entries))
        listed = [r for r in ids[0] + [r for r in ids[1] if r not in ids[0]] if draw(st.booleans())] or ids[1][:1]
        listed = list(draw(st.permutations(listed)))
        if draw(st.booleans()):
            texts.reverse()
        return a, texts, listed

    def inv_body(t):
        a, texts, listed = t
        case = {"kind": "invocation", "pdbs": texts, "listed": [list(x) for x in listed]}
        v, info = invocation_case(case)
        info["sample"] = {"first_structure": a.summary(), "titrate_only": render(listed)[:200]}
        ctx.account(case, v, info)

    ctx.hypothesis_stage("one-invocation-two-files", inv_cases(), inv_body, 200 if quick else 3000)

    # the repository's own bridged structure: listing everything / cysteines only
    if ctx.shard == 0:
        text = gen.corpus_text("3SGB")
        ids = residue_ids(pdbio.parse(text))
        cys = [(c, n, i) for (m, c, n, i, t), ats in pdbio.residues(pdbio.parse(text)) if t == "CYS"]
        items = [{"pdb": text, "listed": [list(x) for x in ids], "phantoms": [], "all": True},
                 {"pdb": text, "listed": [list(x) for x in cys], "phantoms": [], "all": False}]

        def one(c):
            v, info = check_case(c)
            info["sample"] = {"structure": "corpus 3SGB", "titrate_only": render([tuple(x) for x in c["listed"]])[:200]}
            ctx.account(c, v, info)
        ctx.loop_stage("3SGB-all-and-cys", items, one)
