"""C13 - selecting chains equals deleting the other chains from the file.

Differential oracle: record of (-c subset, full file) == record of (no option, file minus the ATOM/HETATM lines of
the other chains), bit for bit including the .pka text; a blank chain identifier is selected with a space.
"""
from hypothesis import strategies as st

from vlib import gen, observe, pdbio, common
from vlib.pdbio import Atom

PROPERTY = "C13"
REDUCE_KEYS = ["pdb"]
LEVEL = "exploration"
RULE = ("structures with 2-4 chains (upper/lower-case, digit and blank ids, TER present or absent between chains, "
        "hetero groups carrying the id of a protein chain or their own, hetero records first or last, optional second "
        "MODEL) x every kind of non-empty subset of the chain ids (-c repeated, blank passed as ' '); command-line "
        "invocations over 2-3 files with one selection. Non-trivial: the "
        "subset is a proper subset, the kept part has >= 1 reported group with a determinant, and a removed chain "
        "precedes a kept chain in the file or interacts with it; distinct by hash of (input, subset).")
ASSUMPTIONS = ["the selected subset is compared bit-exactly: both runs execute the same code on the same atoms"]


def chain_ids(entries):
    ids = []
    for a in pdbio.atoms_of(entries):
        if a.chain not in ids:
            ids.append(a.chain)
    return ids


def filtered(text, subset):
    out = []
    for e in pdbio.parse(text):
        if isinstance(e, Atom) and e.chain not in subset:
            continue
        out.append(e)
    return pdbio.write(out)


def check_case(case):
    text, subset = case["pdb"], case["subset"]
    opt = []
    for c in subset:
        opt += ["-c", c]
    ra = observe.run(text, opt, name="a")
    ftext = filtered(text, subset)
    rb = observe.run(ftext, [], name="a")
    labels = []
    if ra["error"] or rb["error"]:
        if ra["error"] and rb["error"] and ra["error"]["type"] == rb["error"]["type"]:
            return [], {"labels": ["both-error:" + ra["error"]["type"]]}
        return [{"clause": "chain-selection==deletion",
                 "detail": "error with -c: %r; error on filtered file: %r" % (ra["error"], rb["error"])}], {}
    km = common.xyz_keymap(ftext, text)
    # keys of ra refer to the full file already; map rb's keys into the full file
    diffs = observe.compare_records(ra, rb, tol=0.0, keymap=km)
    v = []
    if diffs:
        v.append({"clause": "chain-selection==deletion", "detail": common.fmt_diffs(diffs)})
    elif ra["pka_text"] != rb["pka_text"]:
        la, lb = ra["pka_text"].splitlines(), rb["pka_text"].splitlines()
        i = next((i for i, (x, y) in enumerate(zip(la, lb)) if x != y), min(len(la), len(lb)))
        v.append({"clause": "chain-selection==deletion/pka-text", "detail": "line %d: %r vs %r" % (
            i, la[i:i + 1], lb[i:i + 1])})
    ids = chain_ids(pdbio.parse(text))
    proper = any(c not in subset for c in ids)
    stats = common.interaction_stats(rb)
    first_kept = min((ids.index(c) for c in subset if c in ids), default=0)
    removed_before = any(ids.index(c) < max((ids.index(k) for k in subset if k in ids), default=0)
                         for c in ids if c not in subset)
    if removed_before:
        labels.append("removed-precedes-kept")
    if " " in subset:
        labels.append("blank-selected")
    if any(c.islower() for c in subset):
        labels.append("lowercase-selected")
    labels.append("subset:%d/%d" % (len([c for c in subset if c in ids]), len(ids)))
    return v, {"nontrivial": proper and stats["with_dets"] >= 1, "labels": labels}


def invocation_case(case):
    """One command-line invocation (propka.run.main) over several files with -c: every written file must be the
    file written for the input from which the other chains were deleted."""
    import logging
    import os
    import propka.run
    subset = case["subset"]
    opt = []
    for c in subset:
        opt += ["-c", c]
    names = []
    for n, text in enumerate(case["pdbs"]):
        with open("inv%d.pdb" % n, "w") as fh:
            fh.write(text)
        names.append("inv%d.pdb" % n)
    args = opt[:]
    for fn in names[:-1]:
        args += ["-f", fn]
    args.append(names[-1])
    root = logging.getLogger("")
    before = list(root.handlers)
    err = None
    try:
        propka.run.main([args])
    except BaseException as e:
        if isinstance(e, KeyboardInterrupt):
            raise
        err = "%s: %s" % (type(e).__name__, e)
    finally:
        for h in list(root.handlers):
            if h not in before:
                root.removeHandler(h)
    v = []
    nontrivial = False
    for n, text in enumerate(case["pdbs"]):
        want = observe.run(filtered(text, subset), [], name="ref%d" % n)
        fn = "inv%d.pka" % n
        got = None
        if os.path.exists(fn):
            got = open(fn).read().split("\n", 1)[1]
            os.remove(fn)
        os.remove("inv%d.pdb" % n)
        if want["error"]:
            continue          # (an input without atoms of the selected chains stops the invocation)
        if err and got is None:
            if not any(observe.run(filtered(t, subset), [], name="x")["error"] for t in case["pdbs"][:n + 1]):
                v.append({"clause": "invocation-runs", "detail": "file %d of %d: %s" % (n + 1, len(names), err)})
            break
        if got != want["pka_text"]:
            la, lb = (got or "").splitlines(), want["pka_text"].splitlines()
            i = next((i for i, (x, y) in enumerate(zip(la, lb)) if x != y), min(len(la), len(lb)))
            v.append({"clause": "chain-selection==deletion/invocation", "detail": "file %d of %d in one invocation "
                      "with -c %s: line %d: %r vs %r" % (n + 1, len(names), ",".join(subset), i, la[i:i + 1],
                                                         lb[i:i + 1])})
            break
        if n and any(c not in subset for c in chain_ids(pdbio.parse(text))):
            nontrivial = True
    return v, {"labels": ["invocation:%d-files" % len(names)], "nontrivial": nontrivial}


def replay(case):
    if case.get("kind") == "invocation":
        return invocation_case(case)[0]
    return check_case(case)[0]


def run_shard(ctx):
    quick = ctx.tier == "quick"

    @st.composite
    def cases(draw):
        s = draw(gen.structures(max_res=36 if quick else 70, multi_chain=True, distinct_chain_ids=True))
        entries = s.entries
        # optionally interleave: move the first residue block of the last chain to the front (same chain id twice)
        text = s.text
        if draw(st.sampled_from([False, False, True])):
            # second MODEL: a copy shifted by 0.5 A
            body = [e for e in entries if isinstance(e, Atom) or e.startswith("TER")]
            second = []
            for e in body:
                if isinstance(e, Atom):
                    e = e.copy()
                    e.x += 500
                second.append(e)
            text = "MODEL        1\n" + pdbio.write(body) + "ENDMDL\nMODEL        2\n" + pdbio.write(second) + "ENDMDL\n"
            s.labels.append("two-models")
        elif draw(st.sampled_from([False, False, True])):
            # interleaved chains: the second half of the first chain is moved to the end of the file
            res = pdbio.residues(entries)
            first = res[0][0][1]
            mine = [ats for (k, ats) in res if k[1] == first and ats[0].rec == "ATOM"]
            if len(mine) >= 4:
                tail = set(id(a) for ats in mine[len(mine) // 2:] for a in ats)
                head = [e for e in entries if not (isinstance(e, Atom) and id(e) in tail)
                        and not (isinstance(e, str) and e.startswith("END"))]
                moved = [e for e in entries if isinstance(e, Atom) and id(e) in tail]
                text = pdbio.write(head + moved + [gen.ter_line(moved[-1])])
                s.labels.append("interleaved-chains")
        ids = chain_ids(pdbio.parse(text))
        extra = draw(st.integers(0, 7))
        if extra == 0 and " " not in ids and "_" not in ids:
            # a chain whose identifier is literally "_" (the spelling the program uses internally for a blank one)
            old = ids[draw(st.integers(0, len(ids) - 1))]
            ents = pdbio.parse(text)
            for a in pdbio.atoms_of(ents):
                if a.chain == old:
                    a.chain = "_"
            text = pdbio.write(ents)
            ids = chain_ids(pdbio.parse(text))
            s.labels.append("underscore-chain")
        elif extra == 1:
            # four-letter residue names of simulation packages: a character in column 21, which no record of the
            # model uses
            lines = text.splitlines(True)
            for i, line in enumerate(lines):
                if line[:6] in ("ATOM  ", "HETATM") and len(line) > 26 and (int(line[22:26]) % 3 == 0):
                    lines[i] = line[:20] + "H" + line[21:]
            text = "".join(lines)
            s.labels.append("column-21")
        k = draw(st.integers(1, max(1, len(ids))))
        subset = draw(st.permutations(ids))[:k]
        if draw(st.integers(0, 9)) == 0:
            subset = list(subset) + ["q"]        # an id that does not occur selects nothing extra
        return s, text, list(subset)

    def body(t):
        s, text, subset = t
        case = {"pdb": text, "subset": subset}
        v, info = check_case(case)
        info["labels"] = info.get("labels", []) + [l for l in s.labels if l in ("two-models", "no-ter-break", "interleaved-chains",
                                                                              "hetero-first", "blank-chain", "underscore-chain", "column-21")]
        info["sample"] = {"structure": s.summary(), "chains": chain_ids(pdbio.parse(text)), "selected": subset}
        ctx.account(case, v, info)

    ctx.hypothesis_stage("chain-subsets", cases(), body, 2500 if quick else 40000)

    @st.composite
    def invocations(draw):
        first = draw(gen.structures(max_res=24 if quick else 50, multi_chain=True, distinct_chain_ids=True))
        ids = chain_ids(pdbio.parse(first.text))
        k = draw(st.integers(1, max(1, len(ids) - 1)))
        subset = list(draw(st.permutations(ids))[:k])
        pdbs = [first.text]
        for _ in range(draw(st.integers(1, 2))):
            if draw(st.booleans()):
                pdbs.append(first.text)
            else:
                other = draw(gen.structures(max_res=24 if quick else 50, multi_chain=True, distinct_chain_ids=True))
                pdbs.append(other.text)
        if draw(st.integers(0, 4)) == 0:
            subset.append("q")             # a chain that occurs in none of the files
        return first, pdbs, subset

    def inv_body(t):
        first, pdbs, subset = t
        case = {"kind": "invocation", "pdbs": pdbs, "subset": subset}
        v, info = invocation_case(case)
        info["sample"] = {"first_structure": first.summary(), "files": len(pdbs), "selected": subset}
        ctx.account(case, v, info)

    ctx.hypothesis_stage("one-invocation-several-files", invocations(), inv_body, 300 if quick else 4000)
