"""C06 - residue and chain labels identify residues but never influence the numbers.

Metamorphic oracle: after an order-preserving relabelling (chain renaming, per-chain shifts, strictly increasing
renumbering, resolving / introducing insertion codes) every group record keyed by file position is unchanged
(1e-9; counts exact) and the labels are exactly those the relabelling dictates.
"""
from hypothesis import strategies as st

from vlib import gen, observe, pdbio, common
from vlib.pdbio import Atom

PROPERTY = "C06"
REDUCE_KEYS = [["pdb", "relabelled"]]
LEVEL = "exploration"
RULE = ("corpus-derived structures (incl. 3SGB's insertion-coded residues, generated insertion codes, blank/digit/"
        "lower-case chain ids, ligands, ions) x relabellings: injective chain renaming; per-chain constant shifts (to "
        "negative, to a start at exactly 0, by multiples of 1000, beyond 999); strictly increasing renumbering; "
        "sequential renumbering that resolves insertion codes; introduction of insertion codes; exactly symmetric dimers "
        "(two-fold axis / mirror plane through the origin, one ionizable group touching its image); two independent "
        "chains in contact through one polar side-chain atom each; whole reference proteins with threaded clusters; "
        "two-conformation inputs (one residue with alternate locations) of several chains with overlapping residue "
        "numbers. Non-trivial: the "
        "relabelling changed the text and >= 2 reported groups have determinants; distinct by hash of (input, "
        "relabelled input).")
ASSUMPTIONS = [
    "insertion-code twins (known finding F5): relabellings that keep the twin structure are checked in full; for "
    "relabellings that create or resolve twins a difference is attributed to F5 only if every differing group lies "
    "within 30 A of a twin residue",
]
TWIN_RANGE = 30000


def chains_of(entries):
    out = []
    for (m, c, n, i, t), ats in pdbio.residues(entries):
        if not out or out[-1][0] != (m, c):
            out.append(((m, c), []))
        out[-1][1].append(ats)
    return out


def twin_atoms(entries):
    """Atoms of residues that share (model, chain, number) with a residue of another insertion code."""
    by = {}
    for (m, c, n, i, t), ats in pdbio.residues(entries):
        by.setdefault((m, c, n), {}).setdefault(i, []).extend(ats)
    out = []
    for k, d in by.items():
        if len(d) > 1:
            for ats in d.values():
                out.extend(ats)
    return out


@st.composite
def relabel(draw, structure):
    entries = [e.copy() if isinstance(e, Atom) else e for e in structure.entries]
    kinds = []
    clamped = False
    atoms = pdbio.atoms_of(entries)
    nops = draw(st.integers(1, 2))
    for _ in range(nops):
        kind = draw(st.sampled_from(["chains", "shift", "shift", "increasing", "resolve", "introduce"]))
        kinds.append(kind)
        chain_ids = []
        for a in atoms:
            if a.chain not in chain_ids:
                chain_ids.append(a.chain)
        if kind == "chains":
            pool = [c for c in "ABCDEFGHIJKLMNOPQRSTUVWXYZabcdefghijklmnopqrstuvwxyz0123456789 "]
            new = {}
            for c in chain_ids:
                cand = draw(st.sampled_from(pool))
                while cand in new.values():
                    cand = pool[(pool.index(cand) + 1) % len(pool)]
                new[c] = cand
            for a in atoms:
                a.chain = new[a.chain]
        elif kind == "shift":
            for c in chain_ids:
                ats = [a for a in atoms if a.chain == c]
                lo, hi = min(a.resnum for a in ats), max(a.resnum for a in ats)
                target = draw(st.sampled_from(["zero", "neg", "thousand", "big", "any", "none"]))
                if target == "zero":
                    d = -lo
                elif target == "neg":
                    d = -hi - draw(st.integers(0, 50))
                elif target == "thousand":
                    d = 1000 * draw(st.integers(1, 5))
                elif target == "big":
                    d = 9999 - hi
                elif target == "none":
                    d = 0
                else:
                    d = draw(st.integers(-300, 3000))
                if lo + d < -999 or hi + d > 9999:
                    d = 0
                for a in ats:
                    a.resnum += d
        elif kind in ("increasing", "resolve", "introduce"):
            for (m, c), ress in chains_of(entries):
                n = draw(st.sampled_from([1, 0, -20, 100, 1001, ress[0][0].resnum]))
                k = 0
                codes = " ABCDEFGH"
                prev_num = None
                for ri, res in enumerate(ress):
                    ic = " "
                    if kind == "resolve":
                        num = n + ri
                    elif kind == "increasing":
                        # keep insertion codes; strictly increasing numbers for distinct original numbers
                        if ri and res[0].resnum != prev_num:
                            n += draw(st.sampled_from([1, 1, 2, 5, 40]))
                        num, ic = n, res[0].icode
                        prev_num = res[0].resnum
                    else:
                        if ri and draw(st.sampled_from([True, False, False])) and k < len(codes) - 1:
                            k += 1
                        elif ri:
                            n += 1
                            k = 0
                        num, ic = n, codes[k]
                    if not -999 <= num <= 9999:
                        num = max(-999, min(9999, num))
                        clamped = True            # two residues could end up with one number: not a relabelling
                    for a in res:
                        a.resnum, a.icode = num, ic
    # uniqueness of residue identifiers (chains sharing an id after the relabelling get disjoint numbers)
    seen = {}
    ok = not clamped
    for (m, c, n, i, t), ats in pdbio.residues(entries):
        if (m, c, n, i) in seen:
            ok = False
        seen[(m, c, n, i)] = 1
    return entries, kinds, ok


def expected_label(g):
    chain = g["chain"]
    return "%-3s%4d%2s" % (g["rtype"], g["resnum"], chain)


def check_case(case):
    base, rel = case["pdb"], case["relabelled"]
    ra = observe.run(base, case.get("optargs", []), name="a")
    rb = observe.run(rel, case.get("optargs", []), name="a")
    labels = list(case.get("kinds", []))
    if ra["error"] and rb["error"] and ra["error"]["type"] == rb["error"]["type"]:
        return [], {"labels": ["both-error"]}
    diffs = observe.compare_records(ra, rb, tol=1e-9)
    violations = []
    ea, eb = pdbio.parse(base), pdbio.parse(rel)
    if diffs:
        ta, tb = twin_atoms(ea), twin_atoms(eb)
        sig = None
        ka = {(a.model, a.chain, a.resnum) for a in ta}
        kb = {(a.model, a.chain, a.resnum) for a in tb}
        twin_structure_changed = (len(ka) != len(kb)) or (sorted(a.xyz for a in ta) != sorted(a.xyz for a in tb))
        if (ta or tb) and twin_structure_changed:
            atoms = pdbio.atoms_of(ea)
            tw = ta + tb
            near_all = True
            for d in diffs:
                if d["key"] is None or not isinstance(d["key"], int):
                    near_all = False
                    break
                a = atoms[d["key"]]
                if not any(pdbio.sq_dist(a, t) < TWIN_RANGE ** 2 for t in tw):
                    near_all = False
                    break
            if near_all:
                sig = "icode-twin"
        violations.append({"clause": "relabel-no-effect", "detail": common.fmt_diffs(diffs), "sig": sig})
    # labels are those the relabelling dictates (protein groups: type, number, chain of the relabelled record)
    if not rb["error"]:
        atoms_b = pdbio.atoms_of(eb)
        for c in rb["conf_names"]:
            for g in rb["confs"][c]["groups"]:
                if g["hetatm"] or g["key"] is None or not g["reported"]:
                    continue
                src = atoms_b[g["key"]]
                chain = src.chain.strip() or "_"
                want = "%4d%2s" % (src.resnum, chain)
                if g["label"][3:] != want or g["label"][:3].strip() not in (g["rtype"], src.resn.strip()):
                    violations.append({"clause": "label-follows-relabelling",
                                       "detail": "group at file index %d labelled %r, expected '%s%s'" % (
                                           g["key"], g["label"], g["rtype"].ljust(3), want)})
                    break
    stats = common.interaction_stats(ra) if not ra["error"] else {"with_dets": 0}
    if twin_atoms(ea):
        labels.append("twins-before")
    if twin_atoms(eb):
        labels.append("twins-after")
    info = {"nontrivial": base != rel and stats["with_dets"] >= 2, "labels": labels}
    return violations, info


def replay(case):
    return check_case(case)[0]


def run_shard(ctx):
    quick = ctx.tier == "quick"

    @st.composite
    def cases(draw):
        s = draw(gen.structures(max_res=35 if quick else 70))
        entries, kinds, ok = draw(relabel(s))
        return s, pdbio.write(entries), kinds, ok

    def body(t):
        s, rel, kinds, ok = t
        if not ok:
            ctx.labels["skipped:duplicate-residue-id"] += 1
            return
        case = {"pdb": s.text, "relabelled": rel, "kinds": ["relabel:" + k for k in kinds], "optargs": []}
        v, info = check_case(case)
        info["sample"] = {"structure": s.summary(), "relabelling": kinds,
                          "relabelled_head": rel[:243]}
        ctx.account(case, v, info)

    ctx.hypothesis_stage("relabel", cases(), body, 2500 if quick else 40000)

    # two conformations (one residue with alternate locations) in structures of several chains whose residue numbers
    # overlap: completing one conformation from the other goes by residue labels, which must only identify
    @st.composite
    def alt_cases(draw):
        s0 = draw(gen.structures(max_res=24 if quick else 50, multi_chain=True, distinct_chain_ids=True,
                                 allow_icode=False, allow_hetero=draw(st.booleans())))
        ents, changed = gen.with_alternate_location(s0.entries, draw(st.integers(0, 60)),
                                                    renumber_from=draw(st.sampled_from([None, 1, 1, 5, -3])))
        s = gen.Structure(ents, s0.labels, s0.info)
        entries, kinds, ok = draw(relabel(s))
        return s, pdbio.write(entries), kinds, ok and changed

    def alt_body(t):
        s, rel, kinds, ok = t
        if not ok:
            ctx.labels["skipped:duplicate-residue-id"] += 1
            return
        case = {"pdb": s.text, "relabelled": rel, "kinds": ["relabel:" + k for k in kinds], "optargs": []}
        v, info = check_case(case)
        info["labels"] = info.get("labels", []) + ["alternate-locations"]
        info["sample"] = {"structure": s.summary(), "relabelling": kinds, "relabelled_head": rel[:243]}
        ctx.account(case, v, info)

    ctx.hypothesis_stage("relabel-two-conformations", alt_cases(), alt_body, 320 if quick else 6000)

    # whole reference proteins (several chains, real interfaces) with threaded clusters: inter-chain pairs of every kind
    @st.composite
    def host_cases(draw):
        s = draw(gen.buried_structures())
        entries, kinds, ok = draw(relabel(s))
        return s, pdbio.write(entries), kinds, ok

    def host_body(t):
        s, rel, kinds, ok = t
        if not ok:
            ctx.labels["skipped:duplicate-residue-id"] += 1
            return
        case = {"pdb": s.text, "relabelled": rel, "kinds": ["relabel:" + k for k in kinds], "optargs": []}
        v, info = check_case(case)
        info["labels"] = info.get("labels", []) + ["buried-host"] + [l for l in s.labels if l.startswith("cluster:")]
        info["sample"] = {"structure": s.summary(), "threaded": s.info.get("mutated"), "relabelling": kinds}
        ctx.account(case, v, info)

    ctx.hypothesis_stage("relabel-buried-hosts", host_cases(), host_body, 96 if quick else 1600)

    # two chains joined by a disulfide bridge; shifts that make the two cysteines carry the same residue number
    chains = gen.protein_chains("1FTJ-Chain-A")
    seg = chains[0][1][30:36]

    @st.composite
    def bridged(draw):
        ress = [[a.copy() for a in r] for r in seg]
        ress[1] = gen.mutate_residue(ress[1], "CYS", draw(st.integers(0, 10)))
        ress[4] = gen.mutate_residue(ress[4], "CYS", draw(st.integers(0, 10)))
        sg1 = next(a for a in ress[1] if a.aname == "SG")
        sg2 = next(a for a in ress[4] if a.aname == "SG")
        d = gen.DIRECTIONS[draw(st.integers(0, len(gen.DIRECTIONS) - 1))]
        nrm = sum(c * c for c in d) ** 0.5
        sg2.x, sg2.y, sg2.z = (sg1.x + int(d[0] * 2040 / nrm), sg1.y + int(d[1] * 2040 / nrm),
                               sg1.z + int(d[2] * 2040 / nrm))
        oxt = gen.make_oxt(ress[2])
        if oxt is not None:
            ress[2].append(oxt)
        for r in ress[3:]:
            for a in r:
                a.chain = "B"
        ents = [a for r in ress[:3] for a in r] + [gen.ter_line(ress[2][-1])] + [a for r in ress[3:] for a in r]
        pdbio.renumber_serials(ents)
        base = pdbio.write(ents + [gen.ter_line(ents[-1])])
        n1, n2 = ress[1][0].resnum, ress[4][0].resnum
        shift = draw(st.sampled_from([n1 - n2, n1 - n2, n1 - n2 + 1, 100, -40, 0]))
        rel = [e.copy() if isinstance(e, Atom) else e for e in ents]
        for a in pdbio.atoms_of(rel):
            if a.chain == "B":
                a.resnum += shift
        if draw(st.booleans()):
            for a in pdbio.atoms_of(rel):
                a.chain = {"A": "x", "B": "X"}.get(a.chain, a.chain)
        return base, pdbio.write(rel + [gen.ter_line(rel[-1])]), shift == n1 - n2

    def bridged_body(t):
        base, rel, same = t
        case = {"pdb": base, "relabelled": rel, "kinds": ["relabel:bridged-chains"], "optargs": []}
        v, info = check_case(case)
        info["nontrivial"] = True
        info["labels"] = ["bridged-chains", "same-number" if same else "different-number"]
        info["sample"] = {"structure": "two chains joined by an S-S bridge", "relabelled_head": rel[:160]}
        ctx.account(case, v, info)

    ctx.hypothesis_stage("bridged-chains", bridged(), bridged_body, 300 if quick else 4000)

    # exactly symmetric dimers: a structure and its image under a two-fold axis or a mirror plane through the origin
    # (coordinates negated exactly, so equivalent groups of the two copies get bit-identical comparison values), placed
    # so that one ionizable group touches its own image; the relabelling then reverses / keeps the label order
    SITE = {("ASP", "OD1"), ("ASP", "OD2"), ("GLU", "OE1"), ("GLU", "OE2"), ("HIS", "NE2"), ("HIS", "ND1"),
            ("LYS", "NZ"), ("TYR", "OH"), ("CYS", "SG"), ("ARG", "NH1"), ("ARG", "NH2")}

    class _S:
        pass

    @st.composite
    def dimers(draw):
        s = draw(gen.structures(max_res=14 if quick else 30, allow_hetero=False, multi_chain=False, allow_icode=False,
                                allow_truncation=False, always_ter=True))
        atoms = [a.copy() for a in pdbio.atoms_of(s.entries)]
        ax = draw(st.integers(0, 2))
        sgn = draw(st.sampled_from([1, -1]))
        cands = [a for a in atoms if (a.resn, a.aname) in SITE]
        if not cands or len({a.chain for a in atoms}) != 1:
            return None
        site = max(cands, key=lambda a: sgn * a.xyz[ax])
        half = draw(st.integers(1250, 2000))              # the site and its image end up 2.5-4.0 A apart
        other = draw(st.sampled_from([i for i in range(3) if i != ax]))
        mirror = draw(st.booleans())
        # translate so that the site sits at +-half on the chosen axis and at 0 on the second negated axis
        t = [0, 0, 0]
        t[ax] = -site.xyz[ax] - sgn * half
        t[other] = -site.xyz[other]
        for a in atoms:
            a.x, a.y, a.z = a.x + t[0], a.y + t[1], a.z + t[2]
        image = []
        for a in atoms:
            b = a.copy()
            c = [b.x, b.y, b.z]
            c[ax] = -c[ax]
            if not mirror:
                c[other] = -c[other]
            b.x, b.y, b.z = c
            b.chain = "B" if a.chain != "B" else "C"
            image.append(b)
        lim = max(abs(v) for a in atoms for v in a.xyz)
        if lim > 900000:
            return None
        if {a.xyz for a in atoms} & {b.xyz for b in image}:
            return None            # an atom on the symmetry element coincides with its image: no keying by position
        ents = atoms + [gen.ter_line(atoms[-1])] + image + [gen.ter_line(image[-1])]
        pdbio.renumber_serials(ents)
        o = _S()
        o.entries = ents
        rel, kinds, ok = draw(relabel(o))
        if draw(st.booleans()):
            # swap the two chain names outright (the later chain then carries the label that sorts first)
            names = []
            for a in pdbio.atoms_of(rel):
                if a.chain not in names:
                    names.append(a.chain)
            if len(names) == 2:
                sw = {names[0]: names[1], names[1]: names[0]}
                for a in pdbio.atoms_of(rel):
                    a.chain = sw[a.chain]
                kinds = kinds + ["swap-chain-names"]
        return s, pdbio.write(ents), pdbio.write(rel), kinds, ok, "mirror" if mirror else "two-fold", site

    def dimer_body(t):
        if t is None or not t[4]:
            ctx.labels["skipped:no-site-or-duplicate-id"] += 1
            return
        s, base, rel, kinds, ok, sym, site = t
        case = {"pdb": base, "relabelled": rel, "kinds": ["relabel:" + k for k in kinds], "optargs": []}
        v, info = check_case(case)
        info["labels"] = info.get("labels", []) + ["symmetric-dimer:" + sym, "site:" + site.resn]
        info["sample"] = {"structure": s.summary(), "symmetry": sym, "site": "%s %d %s" % (site.resn, site.resnum, site.aname),
                          "relabelling": kinds}
        ctx.account(case, v, info)

    ctx.hypothesis_stage("symmetric-dimers", dimers(), dimer_body, 500 if quick else 8000)

    # two independent chains brought into contact through one polar side-chain atom each (all pair types, including
    # the pairs whose hydrogen-bond term depends on the order of the two groups)
    CONTACT = SITE | {("ASN", "ND2"), ("ASN", "OD1"), ("GLN", "NE2"), ("GLN", "OE1"), ("SER", "OG"), ("THR", "OG1"),
                      ("TRP", "NE1")}

    POLAR_ATOM = {"ASP": "OD1", "GLU": "OE1", "HIS": "NE2", "CYS": "SG", "TYR": "OH", "LYS": "NZ", "ARG": "NH1",
                  "ASN": "ND2", "GLN": "NE2", "SER": "OG", "THR": "OG1", "TRP": "NE1"}

    @st.composite
    def contacts(draw):
        parts = []
        ax = draw(st.integers(0, 2))
        sgn = draw(st.sampled_from([1, -1]))
        for side in (1, -1):
            s = draw(gen.structures(max_res=14 if quick else 30, allow_hetero=False, multi_chain=False,
                                    allow_icode=False, allow_truncation=False, always_ter=True))
            ents = [e.copy() if isinstance(e, Atom) else e for e in s.entries]
            if side == -1:
                ents = pdbio.move(ents, pdbio.ROTATIONS[draw(st.integers(0, 23))], (0, 0, 0))
            ress = [ats for _k, ats in pdbio.residues(ents)]
            if len({a.chain for r in ress for a in r}) != 1:
                return None
            # the residue that sticks out furthest towards the other part gets a drawn polar type
            cand = [r for r in ress if any(a.aname == "CB" for a in r)]
            if not cand:
                return None
            out = max(cand, key=lambda r: side * sgn * next(a for a in r if a.aname == "CB").xyz[ax])
            t = sorted(POLAR_ATOM)[draw(st.integers(0, 10 ** 6)) % len(POLAR_ATOM)]
            new = gen.mutate_residue(out, t, draw(st.integers(0, 20)))
            if new is None:
                return None
            for a in new:
                a.chain, a.resnum, a.icode = out[0].chain, out[0].resnum, out[0].icode
            atoms = []
            for r in ress:
                atoms += new if r is out else r
            site = next((a for a in new if a.aname == POLAR_ATOM[t]), None)
            if site is None:
                return None
            parts.append((s, atoms, site, t))
        (sa, A, site_a, ta), (sb, B, site_b, tb) = parts
        off = [draw(st.integers(-500, 500)) for _ in range(3)]
        off[ax] = sgn * draw(st.integers(2600, 3400))
        t = tuple(site_a.xyz[i] + off[i] - site_b.xyz[i] for i in range(3))
        moved = pdbio.move(B, pdbio.ROTATIONS[0], t)
        B = pdbio.atoms_of(moved)
        if any(not pdbio.COORD_MIN + 2000 < v < pdbio.COORD_MAX - 2000 for a in B for v in a.xyz):
            return None
        if {a.xyz for a in A} & {b.xyz for b in B}:
            return None
        cid = "B" if A[0].chain != "B" else "C"
        for a in B:
            a.chain = cid
        ents = A + [gen.ter_line(A[-1])] + B + [gen.ter_line(B[-1])]
        pdbio.renumber_serials(ents)
        o = _S()
        o.entries = ents
        rel, kinds, ok = draw(relabel(o))
        if draw(st.booleans()):
            # a per-chain shift that reverses which of the two chains carries the larger numbers
            ra = [a for a in pdbio.atoms_of(rel)]
            first = ra[0].chain
            na = [a.resnum for a in ra if a.chain == first]
            nb = [a.resnum for a in ra if a.chain != first]
            if na and nb:
                d = (min(na) - 5 - max(nb)) if min(nb) > max(na) else (max(na) + 5 - min(nb))
                if -999 <= min(nb) + d and max(nb) + d <= 9999:
                    for a in ra:
                        if a.chain != first:
                            a.resnum += d
                    kinds = kinds + ["reverse-number-order"]
        return sa, pdbio.write(ents), pdbio.write(rel), kinds, ok, "%s-%s" % tuple(sorted((ta, tb)))

    def contact_body(t):
        if t is None or not t[4]:
            ctx.labels["skipped:no-site-or-duplicate-id"] += 1
            return
        sa, base, rel, kinds, ok, pair = t
        case = {"pdb": base, "relabelled": rel, "kinds": ["relabel:" + k for k in kinds], "optargs": []}
        v, info = check_case(case)
        info["labels"] = info.get("labels", []) + ["inter-chain-contact", "contact:" + pair]
        info["sample"] = {"structure": sa.summary(), "contact": pair, "relabelling": kinds}
        ctx.account(case, v, info)

    ctx.hypothesis_stage("inter-chain-contacts", contacts(), contact_body, 2400 if quick else 16000)

    # the repository's own insertion-coded structure under twin-preserving relabellings, and the F5 witness
    if ctx.shard == 0:
        text = gen.corpus_text("3SGB")
        ent = pdbio.parse(text)
        shifted = [e.copy() if isinstance(e, Atom) else e for e in ent]
        for a in pdbio.atoms_of(shifted):
            a.resnum += 1000 if a.chain == "E" else -40
            a.chain = {"E": "b", "I": "A"}.get(a.chain, a.chain)
        case = {"pdb": text, "relabelled": pdbio.write(shifted), "kinds": ["relabel:3SGB-shift+rename"], "optargs": []}

        def one(c):
            v, info = check_case(c)
            info["sample"] = {"structure": "corpus 3SGB (insertion codes)" if "3SGB" in c["kinds"][0] else
                              "witness of fixed finding F20 (exactly symmetric dimer)", "relabelling": c["kinds"]}
            ctx.account(c, v, info)
        import json as _json
        import os as _os
        w = _json.load(open(_os.path.join(_os.path.dirname(_os.path.dirname(_os.path.abspath(__file__))), "witnesses",
                                          "F20_symmetric_dimer_chain_order.json")))["case"]
        w["kinds"] = ["relabel:F20-witness"]
        ctx.loop_stage("3SGB-twin-preserving", [case, w], one)
