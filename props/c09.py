"""C09 - charge curves and isoelectric points follow Henderson-Hasselbalch.

Oracles: an independent Henderson-Hasselbalch evaluation (vlib.refs.hh_charge) for single groups (range, midpoint,
monotonicity) and for the folded / unfolded totals on every grid pH (API profile and printed table); root bracketing
for each reported pI: Q(pI - eps) >= 0 >= Q(pI + eps) with the reference curve whenever that curve changes sign in
the window, with folded from predicted and unfolded from model pKa values.
"""
import io
import math
import os

from hypothesis import strategies as st

from vlib import gen, observe, pdbio, common, refs, pkaparse

PROPERTY = "C09"
REDUCE_KEYS = ["pdb"]
LEVEL = "exploration"
RULE = ("stage 1: single groups with formal charge +-1, pKa in [-20, 40], pH in [-200, 200] incl. pH == pKa and "
        "neighbouring floats, pairs pH1 < pH2 for monotonicity; stage 2: generated structures (acids only, bases only, "
        "mixed, ligand-only, without any titratable group) x grids (min, max, step) x pI windows and precisions "
        "(1e-1 .. 1e-6), default and user values; stage 3: call histories on one container (profile queried before "
        "and after the pKa calculation, repeated queries). Non-trivial: (1) pH != pKa; (2) the structure has acids "
        "and bases and a predicted pKa that differs from its model pKa; distinct by hash.")
ASSUMPTIONS = [
    "single-group values are compared with the reference within 1e-12 (relative to the formal charge); monotonicity "
    "is asserted with the same tolerance (x/(1+x) in floating point is monotone only up to rounding)",
    "|pKa - pH| stays below 308 so that 10**x does not overflow (bound of the float format, stated in the evidence)",
]


def make_group(charge, model_pka, pka):
    from propka.atom import Atom
    from propka.group import Group
    a = Atom()
    g = Group(a)
    g.charge, g.model_pka, g.pka_value, g.titratable = charge, model_pka, pka, True
    return g


def unit_case(case):
    q, pka, mpka, ph1, ph2 = case["charge"], case["pka"], case["model_pka"], case["ph1"], case["ph2"]
    g = make_group(q, mpka, pka)
    v = []
    tol = 1e-12 * abs(q)
    try:
        vals = {}
        for state, pk in (("folded", pka), ("unfolded", mpka)):
            for ph in (ph1, ph2, pk):
                c = g.calculate_charge(None, ph=ph, state=state)
                vals[(state, ph)] = c
                ref = refs.hh_charge(q, pk, ph)
                if not (min(0.0, q) - tol <= c <= max(0.0, q) + tol):
                    v.append({"clause": "charge-range", "detail": "%s q=%r pKa=%r pH=%r -> %r" % (state, q, pk, ph, c)})
                if abs(c - ref) > tol:
                    v.append({"clause": "charge==HH", "detail": "%s q=%r pKa=%r pH=%r -> %r, reference %r" % (
                        state, q, pk, ph, c, ref)})
            if abs(vals[(state, pk)] - q / 2.0) > tol:
                v.append({"clause": "half-charge-at-pKa", "detail": "%s q=%r pKa=%r -> %r" % (state, q, pk,
                                                                                             vals[(state, pk)])})
            lo, hi = (ph1, ph2) if ph1 <= ph2 else (ph2, ph1)
            if vals[(state, hi)] > vals[(state, lo)] + tol:
                v.append({"clause": "never-increases-with-pH", "detail": "%s q=%r pKa=%r: charge(%r)=%r < charge(%r)=%r"
                          % (state, q, pk, lo, vals[(state, lo)], hi, vals[(state, hi)])})
    except Exception as e:
        v.append({"clause": "no-exception", "detail": "%s: %s" % (type(e).__name__, e)})
    return v, {"nontrivial": ph1 != pka and ph1 != ph2, "labels": ["unit:q%+d" % q]}


def sites_of(conf_rec):
    return [(g["charge"], g["model_pka"], g["pka"]) for g in conf_rec["groups"] if g["titratable"]]


def q_ref(sites, ph, folded):
    return sum(refs.hh_charge(q, (pk if folded else mp), ph) for q, mp, pk in sites)


def grid_points(grid):
    mn, mx, step = grid
    n = int(math.floor((mx - mn) / step + 1e-9))
    return [mn + i * step for i in range(n + 1)]


def profile_violations(rec, mol, grid, windows):
    v = []
    sites = sites_of(rec["confs"]["AVR"])
    prof = mol.get_charge_profile(conformation="AVR", grid=grid)
    pts = grid_points(grid)
    if len(prof) != len(pts):
        v.append({"clause": "profile-grid", "detail": "grid %r: %d rows, expected %d" % (grid, len(prof), len(pts))})
    for row in prof:
        ph, qu, qf = row
        ru, rf = q_ref(sites, ph, False), q_ref(sites, ph, True)
        if abs(qu - ru) > 1e-9 or abs(qf - rf) > 1e-9:
            v.append({"clause": "profile==sum-of-HH", "detail": "pH %r: (unfolded, folded) = (%r, %r), reference "
                      "(%r, %r)" % (ph, qu, qf, ru, rf)})
            break
    for (w0, w1, prec) in windows:
        try:
            pi_f, pi_u = mol.get_pi(conformation="AVR", grid=(w0, w1), precision=prec)
        except RecursionError:
            continue
        for name, pi, folded in (("folded", pi_f, True), ("unfolded", pi_u, False)):
            q0, q1 = q_ref(sites, w0, folded), q_ref(sites, w1, folded)
            if q0 > 0 > q1:
                eps = prec + 1e-9
                if not (q_ref(sites, pi - eps, folded) >= -1e-12 and q_ref(sites, pi + eps, folded) <= 1e-12):
                    v.append({"clause": "pI-is-a-root", "detail": "%s pI %r (window %r-%r, precision %r): Q(pI-eps)=%r "
                              "Q(pI+eps)=%r" % (name, pi, w0, w1, prec, q_ref(sites, pi - eps, folded),
                                                q_ref(sites, pi + eps, folded))})
    return v


def text_violations(rec, grid):
    """Printed charge table and pI line against the record."""
    v = []
    if rec["pka_text"] is None:
        return v
    parsed = pkaparse.parse(rec["pka_text"])
    sites = sites_of(rec["confs"]["AVR"])
    pts = grid_points(grid)
    if len(parsed["charge"]) != len(pts):
        v.append({"clause": "printed-charge-grid", "detail": "%d rows printed, grid %r has %d points" % (
            len(parsed["charge"]), grid, len(pts))})
        return v
    for (sph, su, sf), ph in zip(parsed["charge"], pts):
        if not pkaparse.is_rounding_of(sph, ph, 2) or not pkaparse.is_rounding_of(su, q_ref(sites, ph, False), 2) or \
                not pkaparse.is_rounding_of(sf, q_ref(sites, ph, True), 2):
            v.append({"clause": "printed-charge-row", "detail": "row %r at pH %r: reference unfolded %r folded %r" % (
                (sph, su, sf), ph, q_ref(sites, ph, False), q_ref(sites, ph, True))})
            break
    if isinstance(parsed["pi"], tuple):
        for name, s, folded in (("folded", parsed["pi"][0], True), ("unfolded", parsed["pi"][1], False)):
            if q_ref(sites, 0.0, folded) > 0 > q_ref(sites, 14.0, folded):
                pi = float(s)
                eps = 0.005 + 1e-4 + 1e-9
                if not (q_ref(sites, pi - eps, folded) >= -1e-12 and q_ref(sites, pi + eps, folded) <= 1e-12):
                    v.append({"clause": "printed-pI", "detail": "%s pI printed %s is not a root of the %s curve" % (
                        name, s, name)})
    else:
        v.append({"clause": "printed-pI", "detail": "pI line %r" % (parsed["pi"],)})
    return v


def check_case(case):
    text = case["pdb"]
    grid = tuple(case["grid"])
    opt = ["-g"] + [repr(x) for x in grid]
    if case.get("cfgspec"):
        from vlib import cfgs
        opt += cfgs.options(case["cfgspec"])
    rec = observe.run(text, opt, name="a", keep_mol=True)
    if rec["error"]:
        return [], {"labels": ["error:" + rec["error"]["type"]]}
    mol = rec.pop("_mol")
    windows = [tuple(w) for w in case.get("windows", [])]
    v = profile_violations(rec, mol, grid, windows + [(0.0, 14.0, 1e-4)])
    v += profile_violations(rec, mol, tuple(case.get("api_grid", grid)), [])
    v += text_violations(rec, grid)
    sites = sites_of(rec["confs"]["AVR"])
    acids = sum(1 for q, _m, _p in sites if q < 0)
    bases = sum(1 for q, _m, _p in sites if q > 0)
    shifted = any(abs(m - p) > 0.01 for _q, m, p in sites)
    labels = ["acids-only" if acids and not bases else "bases-only" if bases and not acids else
              "none-titratable" if not sites else "mixed"]
    if case.get("cfgspec"):
        # the model pKa of a group whose (residue name, atom name) has a custom entry is the value of that entry - read
        # from the specification of the parameter file, not from the program's tables
        custom = {}
        for line in case["cfgspec"].get("extra") or []:
            w = line.split()
            if len(w) == 3 and w[0] == "custom_model_pkas":
                custom[w[1]] = float(w[2])
        for g in rec["confs"]["AVR"]["groups"]:
            key = "%s-%s" % (g["resname"].strip(), g["aname"].strip())
            if key in custom and g["titratable"] and abs(g["model_pka"] - custom[key]) > 1e-9:
                v.append({"clause": "custom-model-pka", "detail": "%s: model pKa %r, the parameter file says "
                          "custom_model_pkas %s %r" % (g["label"], g["model_pka"], key, custom[key])})
        # a custom model pKa took effect when a group's model pKa is not the tabulated one of its type
        table = mol.version.parameters.model_pkas
        if any(g.titratable and abs(g.model_pka - table.get(g.residue_type, g.model_pka)) > 1e-9
               for g in mol.conformations["AVR"].groups):
            labels.append("custom-model-pka-in-effect")
        labels.append("parameter-variant")
    return v, {"labels": labels, "nontrivial": bool(acids and bases and shifted)}


def history_case(case):
    """Profile queried before and after the pKa calculation on one container, and repeatedly."""
    from propka.input import read_parameter_file, read_molecule_file
    from propka.lib import loadOptions
    from propka.molecular_container import MolecularContainer
    from propka.parameters import Parameters
    text = case["pdb"]
    args = loadOptions(["hist.pdb"])
    parameters = read_parameter_file(args.parameters, Parameters())
    mol = MolecularContainer(parameters, args)
    try:
        mol = read_molecule_file("hist.pdb", mol, stream=io.StringIO(text))
    except ValueError:
        return [], {"labels": ["rejected"]}
    v = []
    grid = tuple(case["grid"])
    try:
        mol.average_of_conformations()
        early = mol.get_charge_profile(conformation="AVR", grid=grid)      # before any pKa was calculated
        mol.get_pi(conformation="AVR")
        for cname in mol.conformation_names:
            mol.get_charge_profile(conformation=cname, grid=grid)
            mol.get_pi(conformation=cname)
        mol.calculate_pka()
        for cname in mol.conformation_names:
            sites = [(g.charge, g.model_pka, g.pka_value) for g in mol.conformations[cname].groups if g.titratable]
            for ph, qu, qf in mol.get_charge_profile(conformation=cname, grid=grid):
                if abs(qu - q_ref(sites, ph, False)) > 1e-9 or abs(qf - q_ref(sites, ph, True)) > 1e-9:
                    v.append({"clause": "profile-after-recalculation", "detail": "conformation %s, pH %r: (%r, %r) vs "
                              "reference (%r, %r)" % (cname, ph, qu, qf, q_ref(sites, ph, False),
                                                      q_ref(sites, ph, True))})
                    break
        for rep in range(2):
            sites = [(g.charge, g.model_pka, g.pka_value) for g in mol.conformations["AVR"].groups if g.titratable]
            prof = mol.get_charge_profile(conformation="AVR", grid=grid)
            for ph, qu, qf in prof:
                if abs(qu - q_ref(sites, ph, False)) > 1e-9 or abs(qf - q_ref(sites, ph, True)) > 1e-9:
                    v.append({"clause": "profile-after-recalculation", "detail": "query %d, pH %r: (%r, %r) vs "
                              "reference (%r, %r)" % (rep, ph, qu, qf, q_ref(sites, ph, False),
                                                      q_ref(sites, ph, True))})
                    break
            pi_f, pi_u = mol.get_pi(conformation="AVR")
            for name, pi, folded in (("folded", pi_f, True), ("unfolded", pi_u, False)):
                if q_ref(sites, 0.0, folded) > 0 > q_ref(sites, 14.0, folded):
                    if not (q_ref(sites, pi - 1.1e-4, folded) >= -1e-12 and q_ref(sites, pi + 1.1e-4, folded) <= 1e-12):
                        v.append({"clause": "pI-after-recalculation", "detail": "%s pI %r" % (name, pi)})
            if v:
                break
    except Exception as e:
        v.append({"clause": "history-no-exception", "detail": "%s: %s" % (type(e).__name__, e)})
    return v, {"labels": ["history"], "nontrivial": True}


def conformation_file_case(case):
    """propka.output.write_pka for every conformation of a multi-conformation input: table and pI line must belong to
    the conformation that is written."""
    import propka.output
    text = case["pdb"]
    rec = observe.run(text, [], name="a", keep_mol=True)
    if rec["error"]:
        return [], {"labels": ["error:" + rec["error"]["type"]]}
    mol = rec.pop("_mol")
    v = []
    differ = False
    for cname in rec["conf_names"] + ["AVR"]:
        fn = "conf_%s.pka" % cname
        try:
            propka.output.write_pka(mol, mol.version.parameters, filename=fn, conformation=cname, verbose=False)
        except Exception as e:
            v.append({"clause": "write-conformation", "detail": "%s: %s: %s" % (cname, type(e).__name__, e)})
            continue
        txt = open(fn).read().split("\n", 1)[1]
        os.remove(fn)
        sub = {"pka_text": txt, "confs": {"AVR": rec["confs"][cname]}}
        tv = text_violations(sub, (0.0, 14.0, 0.1))
        for x in tv:
            x["detail"] = "file written for conformation %s: %s" % (cname, x["detail"])
        v += tv
        if sites_of(rec["confs"][cname]) != sites_of(rec["confs"]["AVR"]):
            differ = True
    return v, {"labels": ["conformation-files"], "nontrivial": differ}


def replay(case):
    if case.get("kind") == "conformation-files":
        return conformation_file_case(case)[0]
    if case.get("kind") == "unit":
        return unit_case(case)[0]
    if case.get("kind") == "history":
        return history_case(case)[0]
    return check_case(case)[0]


def grids_strategy():
    step = st.sampled_from([0.1, 0.1, 0.05, 0.25, 0.3, 0.7, 1.0, 0.01 * 7, 2.0, 0.5, 0.125, 1.5, 0.15])
    mn = st.sampled_from([0.0, 0.0, -2.0, 1.0, 3.5, 6.9, 0.05, 0.005])
    span = st.sampled_from([14.0, 7.0, 1.0, 3.3, 10.0, 20.0])
    return st.tuples(mn, span, step).map(lambda t: (t[0], t[0] + t[1], t[2]))


def run_shard(ctx):
    quick = ctx.tier == "quick"

    @st.composite
    def units(draw):
        q = draw(st.sampled_from([1, -1, 1.0, -1.0]))
        pka = draw(st.one_of(st.floats(-20, 40), st.sampled_from([3.8, 4.5, 6.5, 9.0, 10.0, 10.5, 12.5, 8.0, 3.2, 0.0,
                                                                    99.99])))
        mpka = draw(st.sampled_from([3.8, 4.5, 6.5, 9.0, 10.0, 10.5, 12.5, 8.0, 3.2]))
        kind = draw(st.sampled_from(["any", "any", "near", "ulp", "far"]))
        if kind == "near":
            ph1 = pka + draw(st.floats(-3, 3))
        elif kind == "ulp":
            ph1 = math.nextafter(pka, draw(st.sampled_from([-1e9, 1e9])))
        elif kind == "far":
            ph1 = draw(st.sampled_from([-200.0, 200.0, -120.5, 150.25]))
        else:
            ph1 = draw(st.floats(-200, 200))
        ph2 = draw(st.one_of(st.floats(-200, 200), st.just(math.nextafter(ph1, 1e9)), st.just(ph1 + 1e-9),
                             st.floats(-5, 5).map(lambda d: ph1 + d)))
        ph2 = max(-200.0, min(200.0, ph2))
        return {"kind": "unit", "charge": q, "pka": pka, "model_pka": mpka, "ph1": ph1, "ph2": ph2}

    def unit_body(case):
        v, info = unit_case(case)
        info["sample"] = dict(case)
        ctx.account(case, v, info)

    ctx.hypothesis_stage("single-group", units(), unit_body, 50000 if quick else 500000)

    @st.composite
    def cases(draw):
        kind = draw(st.sampled_from(["any", "any", "any", "acids", "bases", "ligand-only", "nothing"]))
        if kind in ("any", "acids", "bases"):
            s = draw(gen.structures(max_res=30 if quick else 60))
            text = s.text
            if kind != "any":
                # keep only residues without the other kind of side chain and cut the termini to one kind
                drop = ("LYS", "ARG", "HIS") if kind == "acids" else ("ASP", "GLU", "CYS", "TYR")
                ents = []
                for e in s.entries:
                    if isinstance(e, pdbio.Atom):
                        if e.resn in drop and e.aname not in pdbio.BACKBONE:
                            continue
                        if kind == "acids" and e.aname == "N" and e.rec == "ATOM":
                            continue          # no amino termini (and no backbone N)
                        if kind == "bases" and e.aname in pdbio.TERMINAL_O:
                            continue
                    ents.append(e)
                text = pdbio.write(ents)
            summ = s.summary()
        else:
            name = draw(st.sampled_from(["ACT", "MGX", "PYR", "MLA"] if kind == "ligand-only" else ["MOH", "ACE", "DME"]))
            mol = gen.LIGANDS[name]
            het = gen.hetero_residue(mol["resn"], mol["atoms"], "L", 1, pdbio.ROTATIONS[draw(st.integers(0, 23))],
                                     (draw(st.integers(-5000, 50000)), 1000, 2000))
            text = pdbio.write(het)
            summ = {"ligand only": name}
        grid = draw(grids_strategy())
        api_grid = draw(grids_strategy())
        windows = []
        for _ in range(draw(st.integers(0, 3))):
            w0 = draw(st.sampled_from([0.0, 0.0, -5.0, 2.0, 6.0, 9.5]))
            w1 = w0 + draw(st.sampled_from([14.0, 4.0, 1.0, 20.0, 0.3]))
            windows.append((w0, w1, draw(st.sampled_from([1e-4, 1e-1, 1e-2, 1e-3, 1e-6, 0.5]))))
        spec = None
        if draw(st.integers(0, 3)) == 0:
            # model pKa values from a parameter file: the whole table shifted and/or custom values for single atoms of
            # the residues (hetero and protein) that occur in the structure
            spec = {}
            if draw(st.booleans()):
                spec["shift_model_pkas"] = draw(st.sampled_from([0.35, -0.6, 1.25]))
            atoms = sorted({(a.resn.strip(), a.aname.strip()) for a in pdbio.atoms_of(pdbio.parse(text))
                            if a.rec == "HETATM" and a.aname.strip()[:1] in ("N", "O", "S")})
            atoms += [("LYS", "NZ"), ("TYR", "OH"), ("CYS", "SG"), ("ASP", "CG"), ("GLU", "CD"), ("HIS", "CG"),
                      ("ARG", "CZ")]
            picks = draw(st.lists(st.sampled_from(atoms), max_size=3, unique=True))
            short = [r for r, n in picks if any(a.rec == "HETATM" and a.resn.strip() == r
                                                for a in pdbio.atoms_of(pdbio.parse(text)))]
            if short and draw(st.booleans()):
                # hetero residue names are 1-3 characters (DA, DG, U ...): give the picked residue a two-letter name
                old, new = short[0], "Q" + str(draw(st.integers(2, 9)))
                ents = pdbio.parse(text)
                for a in pdbio.atoms_of(ents):
                    if a.rec == "HETATM" and a.resn.strip() == old:
                        a.resn = new.rjust(3) if draw(st.booleans()) else new.ljust(3)
                text = pdbio.write(ents)
                picks = [(new if r == old else r, n) for r, n in picks]
            if picks or not spec:
                spec["extra"] = ["custom_model_pkas %s-%s %.2f" % (r, n, draw(st.sampled_from([2.1, 5.71, 8.4, 11.3])))
                                 for r, n in picks] or ["custom_model_pkas XYZ-N1 5.00"]
        return summ, text, grid, api_grid, windows, spec

    def body(t):
        summ, text, grid, api_grid, windows, spec = t
        case = {"pdb": text, "grid": list(grid), "api_grid": list(api_grid), "windows": [list(w) for w in windows],
                "cfgspec": spec}
        v, info = check_case(case)
        info["sample"] = {"structure": summ, "grid": grid, "api_grid": api_grid, "pI_windows": windows}
        ctx.account(case, v, info)

    ctx.hypothesis_stage("profiles-and-pI", cases(), body, 4000 if quick else 40000)

    from vlib import genconf

    def conf_body(t):
        text, info = t
        case = {"kind": "conformation-files", "pdb": text}
        v, ci = conformation_file_case(case)
        ci["sample"] = {"structure": info["structure"].summary(), "conformations": info["labels"]}
        ctx.account(case, v, ci)

    ctx.hypothesis_stage("file-per-conformation", genconf.multi_conformation(max_res=14, kinds=("models", "altloc")),
                         conf_body, 400 if quick else 5000)

    def hist_body(s):
        case = {"kind": "history", "pdb": s.text, "grid": [0.0, 14.0, 0.5]}
        v, info = history_case(case)
        info["sample"] = {"structure": s.summary(), "history": "average, profile, pI, calculate_pka, profile x2, pI x2"}
        ctx.account(case, v, info)

    ctx.hypothesis_stage("query-histories", gen.structures(max_res=20), hist_body, 1500 if quick else 12000)
