"""C20 - rotation about an axis is the right-handed (Rodrigues) rotation for every axis.

Oracle: closed-form Rodrigues rotation (vlib.refs.rodrigues) plus the three invariants of the statement computed
separately (length, axial component, signed turned angle), so that a failure names the invariant that broke.
"""
import itertools
import math

from hypothesis import strategies as st

from vlib import refs

PROPERTY = "C20"
LEVEL = "exploration"
RULE = ("(theta, axis, vector) triples: Hypothesis floats (theta in [-4pi,4pi] plus exact multiples of pi/6; components "
        "of magnitude 1e-3..1e3, both signs, the axis additionally scaled by 1e-12..1e12) and an explicit enumeration of all 26 sign/zero patterns of the axis x "
        "magnitudes x angles x vectors (parallel, antiparallel, perpendicular, generic, zero). Non-trivial: theta is "
        "not a multiple of 2pi and the vector is not (anti)parallel to the axis; distinct by hash of the triple.")
ASSUMPTIONS = [
    "tolerance: |R - Rodrigues| <= 1e-6*|v| + 1e-12 per component (the implementation's asin/acos alignment is only "
    "accurate to ~1e-8 rad for ill-conditioned axes; hydrogens are rounded to 0.001 A afterwards)",
    "vector components between 1e-3 and 1e3, axis components between 1e-15 and 1e15 in magnitude (or exactly 0): "
    "the only caller passes inter-atomic vectors and their cross products (0.5-10 A); sqrt(x*x+y*y) "
    "under/overflows only beyond 1e+-154",
]
RTOL = 1e-6
AXIS_SCALES = [1e-12, 1e-9, 1e-6, 1e-3, 1e3, 1e6, 1e9, 1e12]

MAGS = [1e-3, 0.037, 0.5, 1.0, 1.09, 2.51, 17.0, 1e3]
ANGLES = [k * math.pi / 6 for k in range(-12, 13)] + [math.radians(109.5), math.radians(120.0), math.radians(90),
                                                      1e-9, -1e-9, 0.1, -2.0, 7.3]


def _call(theta, axis, vec):
    from propka.vector_algebra import Vector, rotate_vector_around_an_axis
    r = rotate_vector_around_an_axis(theta, Vector(*axis), Vector(*vec))
    return (r.x, r.y, r.z)


def check_case(case):
    theta, axis, vec = case["theta"], tuple(case["axis"]), tuple(case["vec"])
    violations = []
    try:
        got = _call(theta, axis, vec)
    except Exception as e:      # a non-zero axis must never raise
        return [{"clause": "no-exception", "detail": "%s: %s" % (type(e).__name__, e)}], {}
    exp = refs.rodrigues(theta, axis, vec)
    vlen = math.sqrt(sum(c * c for c in vec))
    tol = RTOL * vlen + (1e-12 if vlen >= 1e-3 else 0.0)       # purely relative for very short vectors
    err = max(abs(g - e) for g, e in zip(got, exp))
    if not all(math.isfinite(g) for g in got) or err > tol:
        # name the invariant
        alen = math.sqrt(sum(c * c for c in axis))
        k = [c / alen for c in axis]
        glen = math.sqrt(sum(c * c for c in got))
        ax_in = sum(a * b for a, b in zip(k, vec))
        ax_out = sum(a * b for a, b in zip(k, got))
        which = "turned-angle"
        if abs(glen - vlen) > tol:
            which = "length"
        elif abs(ax_in - ax_out) > tol:
            which = "axial-component"
        violations.append({"clause": "rodrigues/" + which,
                           "detail": "theta=%r axis=%r vec=%r got=%r expected=%r err=%.3g tol=%.3g" % (
                               theta, axis, vec, got, exp, err, tol)})
    # non-triviality
    alen = math.sqrt(sum(c * c for c in axis))
    cross = (axis[1] * vec[2] - axis[2] * vec[1], axis[2] * vec[0] - axis[0] * vec[2],
             axis[0] * vec[1] - axis[1] * vec[0])
    perp = math.sqrt(sum(c * c for c in cross)) / (alen * vlen) if vlen > 0 else 0.0
    nontrivial = perp > 1e-6 and abs(math.sin(theta / 2)) > 1e-6
    pattern = "".join("0" if c == 0 else ("+" if c > 0 else "-") for c in axis)
    info = {"nontrivial": nontrivial, "labels": ["axis" + pattern],
            "sample": {"theta": theta, "axis": axis, "vec": vec, "result": got, "max_err": err}}
    return violations, info


def reuse_case(case):
    """The same axis and vector objects handed to several calls: every call is a function of its arguments' values,
    and the arguments are left as they were."""
    from propka.vector_algebra import Vector, rotate_vector_around_an_axis
    axis, vec = tuple(case["axis"]), tuple(case["vec"])
    a, v0 = Vector(*axis), Vector(*vec)
    out = []
    vlen = math.sqrt(sum(c * c for c in vec))
    tol = RTOL * vlen + (1e-12 if vlen >= 1e-3 else 0.0)
    for i, theta in enumerate(case["thetas"]):
        r = rotate_vector_around_an_axis(theta, a, v0)
        exp = refs.rodrigues(theta, axis, vec)
        err = max(abs(g - e) for g, e in zip((r.x, r.y, r.z), exp))
        if err > tol:
            out.append({"clause": "rodrigues/reused-objects", "detail": "call %d of %d with the same axis and vector "
                        "objects: theta=%r axis=%r vec=%r got=%r expected=%r" % (
                            i + 1, len(case["thetas"]), theta, axis, vec, (r.x, r.y, r.z), exp)})
            break
        if (a.x, a.y, a.z) != axis or (v0.x, v0.y, v0.z) != vec:
            out.append({"clause": "arguments-unchanged", "detail": "after call %d: axis %r -> %r, vector %r -> %r" % (
                i + 1, axis, (a.x, a.y, a.z), vec, (v0.x, v0.y, v0.z))})
            break
    return out, {"nontrivial": len(case["thetas"]) > 1, "labels": ["reused-objects"],
                 "sample": {"thetas": case["thetas"], "axis": axis, "vec": vec}}


def replay(case):
    if "thetas" in case:
        return reuse_case(case)[0]
    return check_case(case)[0]


def _comp():
    mag = st.one_of(st.floats(min_value=1e-3, max_value=1e3), st.sampled_from(MAGS),
                    st.integers(1, 20000).map(lambda i: i / 1000.0))
    return st.builds(lambda m, s: m * s, mag, st.sampled_from([1.0, -1.0]))


def _strategy():
    theta = st.one_of(st.floats(min_value=-4 * math.pi, max_value=4 * math.pi), st.sampled_from(ANGLES))
    comp = _comp()
    compz = st.one_of(comp, comp, comp, st.just(0.0))     # zero components also appear in the random stage
    scale = st.sampled_from([1.0] * 6 + AXIS_SCALES)
    axis = st.tuples(compz, compz, compz, scale).filter(lambda a: any(c != 0 for c in a[:3])).map(
        lambda a: (a[0] * a[3], a[1] * a[3], a[2] * a[3]))
    vscale = st.sampled_from([1.0] * 8 + [1e-12, 1e-9, 1e-6, 1e6, 1e9])     # the map is linear in the vector
    vec = st.tuples(compz, compz, compz, vscale).map(lambda a: (a[0] * a[3], a[1] * a[3], a[2] * a[3]))
    return st.tuples(theta, axis, vec)


def run_shard(ctx):
    def body(t):
        theta, axis, vec = t
        case = {"theta": theta, "axis": list(axis), "vec": list(vec)}
        violations, info = check_case(case)
        ctx.account(case, violations, info)

    n = 60000 if ctx.tier == "quick" else 1500000
    ctx.hypothesis_stage("random-triples", _strategy(), body, n)

    def reuse_body(t):
        thetas, (_th, axis, vec) = t
        case = {"thetas": list(thetas), "axis": list(axis), "vec": list(vec)}
        violations, info = reuse_case(case)
        ctx.account(case, violations, info)

    ctx.hypothesis_stage("reused-argument-objects",
                         st.tuples(st.lists(st.sampled_from(ANGLES), min_size=2, max_size=4), _strategy()), reuse_body,
                         6000 if ctx.tier == "quick" else 100000)

    # enumeration of the zero-component families with all sign patterns
    patterns = [p for p in itertools.product((-1, 0, 1), repeat=3) if any(p)]
    mags = MAGS if ctx.tier == "thorough" else [0.037, 1.0, 2.51, 17.0]
    mag_pairs = [(a, b, c) for a in mags for b in mags for c in mags] if ctx.tier == "thorough" else \
        [(a, b, c) for a in mags for b in mags[:2] for c in mags[2:]]
    angles = ANGLES if ctx.tier == "thorough" else ANGLES[::3] + ANGLES[-8:]
    items = []
    for p in patterns:
        for m in mag_pairs:
            axis = tuple(s * q for s, q in zip(p, m))
            items.append(axis)
        for sc in AXIS_SCALES:          # the rotation does not depend on the length of the axis
            items.append(tuple(s * q * sc for s, q in zip(p, (0.7, 1.3, 2.1))))
    # axes tilted by a tiny angle away from each coordinate direction (the alignment angles are ill-conditioned there)
    for ax in range(3):
        for sgn in (1.0, -1.0):
            for eps in (1e-9, 1e-7, 1e-6, 1e-5, 1e-4, 5e-4, 1e-3, 1e-2):
                for other in range(3):
                    if other == ax:
                        continue
                    for s2 in (1.0, -1.0):
                        for length in (1.0, 2.3):
                            a = [0.0, 0.0, 0.0]
                            a[ax] = sgn * length
                            a[other] = s2 * eps * length
                            items.append(tuple(a))
                            third = 3 - ax - other
                            b = list(a)
                            b[third] = eps * length * 0.5
                            items.append(tuple(b))
    items = sorted(set(items))

    def vectors(axis):
        alen = math.sqrt(sum(c * c for c in axis))
        k = tuple(c / alen for c in axis)
        # a perpendicular direction
        ref = (1.0, 0.0, 0.0) if abs(k[0]) < 0.9 else (0.0, 1.0, 0.0)
        perp = (k[1] * ref[2] - k[2] * ref[1], k[2] * ref[0] - k[0] * ref[2], k[0] * ref[1] - k[1] * ref[0])
        return [tuple(1.5 * c for c in k), tuple(-0.7 * c for c in k), perp, (1.0, 0.0, 0.0), (0.0, 1.0, 0.0),
                (0.0, 0.0, 1.0), (0.3, -1.2, 2.2), (-1.09, 0.5, 0.001), (0.0, 0.0, 0.0)]

    mine = [items[i] for i in ctx.my_slice(len(items))]

    def enum_body(axis):
        for theta in angles:
            for vec in vectors(axis):
                case = {"theta": theta, "axis": list(axis), "vec": list(vec)}
                violations, info = check_case(case)
                info.pop("sample", None)
                ctx.account(case, violations, info)

    ctx.loop_stage("zero-component-families", mine, enum_body, exhaustive=False)
    ctx.notes["zero_family_axes"] = len(items)
