"""C15 - coupling analysis observes without disturbing.

Differential oracle: the same structure is run with the non-covalent coupling analysis enabled and disabled
(NCCG.do_prot_stat toggled by the harness and restored); without the display option every pKa must agree (1e-9) and
every determinant multiset must be identical (values exact: determinants are moved, never recomputed).  Coupling must
be symmetric and the determinant row of a group is starred iff it has a coupled partner (API string per
conformation, and the written table for the reported conformation).
"""
import os

from hypothesis import strategies as st

from vlib import gen, observe, pdbio, common, pkaparse

PROPERTY = "C15"
REDUCE_KEYS = ["pdb"]
LEVEL = "exploration"
RULE = ("whole reference proteins with threaded clusters of like groups around buried positions (ASP/GLU pairs and "
        "triples, HIS/HIS, CYS/CYS, LYS/ARG, mixed; library ions/ligands next to the cluster), the reference proteins "
        "themselves and corpus-derived balls; each run with the analysis on and off in the same process; drawn "
        "parameter files (sharing / removal / charge-centre switches, wider coupling thresholds, seven other settings of the "
        "analysis' own thresholds: min_pka / max_pka window, energy criteria) and verbosity options "
        "(--log-level DEBUG/WARNING, -q). Non-trivial: "
        "the analysis swapped at least one pair past the interaction-energy gate (counted by wrapping "
        "swap_interactions from the harness) and found >= 1 coupled pair; distinct by hash of the input.")
ASSUMPTIONS = ["determinant lists are compared as multisets per type: swapping and swapping back re-orders the list"]


def run_with(text, enabled, count_swaps=False, opt=()):
    from propka.coupled_groups import NCCG
    old = NCCG.do_prot_stat
    swaps = [0]
    orig = NCCG.swap_interactions
    if count_swaps:
        def wrapped(*a, **k):
            swaps[0] += 1
            return orig(*a, **k)
        NCCG.swap_interactions = wrapped
    NCCG.do_prot_stat = enabled
    try:
        rec = observe.run(text, list(opt), name="a", keep_mol=True)
    finally:
        NCCG.do_prot_stat = old
        if count_swaps:
            del NCCG.swap_interactions        # remove the instance attribute -> class method again
    return rec, swaps[0]


LOOSE = {"max_intrinsic_pka_diff": "3.5", "min_interaction_energy": "0.3", "max_free_energy_diff": "2.0",
         "min_swap_pka_shift": "0.5", "max_pka": "12.0"}
# other settings of the analysis' own thresholds (the window of default pKa values it looks at, the energy
# criteria; a numeric reference pH in the parameter file is left out: the shipped reader keeps it as a string and the
# analysis raises TypeError with it, which is outside what C15 states): whatever the thresholds are, the analysis must leave the results alone
THRESHOLDS = [dict(LOOSE, min_pka="3.5"), dict(LOOSE, min_pka="5.5", max_pka="14.0"), dict(LOOSE, max_pka="6.0"),
              dict(LOOSE, min_pka="4.5", max_intrinsic_pka_diff="5.0"), dict(LOOSE, max_pka="4.4"),
              {"min_pka": "4.2", "max_intrinsic_pka_diff": "6.0", "min_swap_pka_shift": "0.1"},
              dict(LOOSE, min_pka="-5.0", max_pka="20.0", max_free_energy_diff="6.0", min_interaction_energy="0.05")]
FLAGSETS = [None, {"shared_determinants": "1"}, {"shared_determinants": "1", "remove_penalised_group": "0"},
            {"common_charge_centre": "1"}, {"remove_penalised_group": "0"}]


def loose_cfg():
    """Parameter file with wider coupling thresholds (more coupled pairs, incl. ligand groups)."""
    path = os.path.abspath("loose_coupling.cfg")
    if not os.path.exists(path):
        changed = LOOSE
        out = []
        for line in open(os.path.join(os.environ.get("VERIF_REPO", "/repo"), "propka", "propka.cfg")):
            w = line.split()
            out.append("%s %s\n" % (w[0], changed[w[0]]) if w and w[0] in changed else line)
        open(path, "w").writelines(out)
    return path


def check_case(case):
    text = case["pdb"]
    opt = ["-p", loose_cfg()] if case.get("loose") else []
    if case.get("flags"):
        from vlib import cfgs
        changes = dict(case["flags"])
        if case.get("loose"):
            changes.update(LOOSE)
        opt = cfgs.options({"changes": changes})
    if case.get("thresholds") is not None:
        from vlib import cfgs
        changes = dict(case.get("flags") or {})
        changes.update(THRESHOLDS[case["thresholds"]])
        opt = cfgs.options({"changes": changes})
    opt = list(opt) + list(case.get("extra_opt") or [])
    ron, swaps = run_with(text, True, count_swaps=True, opt=opt)
    roff, _ = run_with(text, False, opt=opt)
    if ron["error"] or roff["error"]:
        if ron["error"] and roff["error"]:
            return [], {"labels": ["both-error"]}
        return [{"clause": "no-error", "detail": "on: %r off: %r" % (ron["error"], roff["error"])}], {}
    mol = ron.pop("_mol")
    roff.pop("_mol", None)
    v = []
    diffs = observe.compare_records(ron, roff, tol=1e-9)
    # determinant values must be exactly those of the undisturbed run
    if not diffs:
        for c in ron["conf_names"]:
            ia, _ = observe.index_groups(ron["confs"][c])
            ib, _ = observe.index_groups(roff["confs"][c])
            for k in ia:
                if k in ib and observe.det_multiset(ia[k]) != observe.det_multiset(ib[k]):
                    diffs.append({"conf": c, "key": k[0], "label": ia[k]["label"],
                                  "diffs": ["determinant values differ in the last bits: %r vs %r" % (
                                      observe.det_multiset(ia[k]), observe.det_multiset(ib[k]))]})
    if diffs:
        v.append({"clause": "analysis-changes-nothing", "detail": common.fmt_diffs(diffs)})
    coupled = 0
    for c in ron["conf_names"]:
        groups = ron["confs"][c]["groups"]
        by_key = {}
        for g in groups:
            by_key.setdefault((g["key"], g["type"]), g)
        part = {}
        for g in groups:
            if g["noncov"]:
                coupled += 1
        # symmetry on the live objects (keys could collide for twins)
        conf = mol.conformations[c]
        label_count = {}
        for g in conf.groups:
            if g.titratable:
                label_count[g.label] = label_count.get(g.label, 0) + 1
        for g in conf.groups:
            for o in g.non_covalently_coupled_groups:
                if not any(x is g for x in o.non_covalently_coupled_groups):
                    # two titratable groups sharing a label (insertion-code twins) are one group to the bookkeeping of
                    # couple_non_covalently: open finding F5
                    shared = label_count.get(g.label, 0) > 1 or label_count.get(o.label, 0) > 1
                    v.append({"clause": "coupling-symmetric", "detail": "%s lists %s but not vice versa [%s]" % (
                        g.label, o.label, c), "sig": "icode-twin" if shared and common.twin_atoms(pdbio.parse(text))
                        else None})
            for flag in (False, True):          # as the API default and as the .pka writer calls it
                s = g.get_determinant_string(flag)
                if not s:
                    continue
                first = s.split("\n")[0]
                star = len(first) > 16 and first[16] == "*"
                if star != bool(g.non_covalently_coupled_groups):
                    v.append({"clause": "star-iff-coupled", "detail": "%s[%s]: row %r, %d coupled partners" % (
                        g.label, c, first[:20], len(g.non_covalently_coupled_groups))})
                    break
    # the written table (reported conformation): star iff the printed group has a coupled partner
    if ron["pka_text"]:
        parsed = pkaparse.parse(ron["pka_text"])
        avr = {}
        for g in ron["confs"]["AVR"]["groups"]:
            avr.setdefault(g["label"], []).append(bool(g["noncov"]))
        for d in parsed["det_groups"]:
            want = avr.get(d["label"])
            if want is not None and len(set(want)) == 1 and d["star"] != want[0]:
                v.append({"clause": "star-iff-coupled/file", "detail": "%s printed star=%r, coupled=%r" % (
                    d["label"], d["star"], want[0])})
        any_coupled = any(g["noncov"] for g in ron["confs"]["AVR"]["groups"])
        if parsed["coupled_note"] != bool(ron["confs"]["AVR"]["coupled_flag"]):
            v.append({"clause": "coupled-note", "detail": "note printed %r, flag %r" % (
                parsed["coupled_note"], ron["confs"]["AVR"]["coupled_flag"])})
    labels = []
    if swaps:
        labels.append("swapped")
    if coupled:
        labels.append("coupled-groups")
    return v[:6], {"labels": labels, "nontrivial": swaps > 0 and coupled > 0, "swaps": swaps}


def replay(case):
    return check_case(case)[0]


def run_shard(ctx):
    quick = ctx.tier == "quick"

    @st.composite
    def cases(draw):
        k = draw(st.integers(0, 9))
        if k < 7:
            kind = draw(st.sampled_from(["acid-acid", "acid-acid", "his-his", "cys-cys", "base-base", "acid-his",
                                         "any", "tyr-any", "cys-his"]))
            return draw(gen.buried_structures(pair_kind=kind))
        return draw(gen.structures(max_res=60 if quick else 90, max_atoms=1800))

    def twinned(s, code):
        """Make two neighbouring residues share a label: the predecessor of a threaded residue gets the same residue
        type and the threaded residue gets the predecessor's number plus an insertion code (the relation on == off
        must hold all the same: both runs use the same labels)."""
        entries = [e.copy() if isinstance(e, pdbio.Atom) else e for e in s.entries]
        res = pdbio.residues(entries)
        muts = set(s.info.get("mutated") or [])
        for i in range(1, len(res)):
            (m, c, n, ic, t), ats = res[i]
            (m0, c0, n0, ic0, t0), ats0 = res[i - 1]
            if "%s%d%s" % (t, n, c) in muts and c0 == c and ic == " " and ic0 == " " and ats[0].rec == "ATOM" \
                    and ats0[0].rec == "ATOM" and t0 in gen.HEAVY_COUNT:
                grid = gen.Grid(pdbio.atoms_of(entries))
                own = set(id(a) for a in ats0)
                for attempt in range(8):
                    cand = gen.mutate_residue(ats0, t, attempt)
                    if cand is None:
                        break
                    side = [a for a in cand if a.aname not in pdbio.BACKBONE and a.aname not in pdbio.TERMINAL_O]
                    if not any(id(b) not in own for a in side for b in grid.near(a, 2150)):
                        ids = set(id(a) for a in ats0)
                        out, done = [], False
                        for e in entries:
                            if isinstance(e, pdbio.Atom) and id(e) in ids:
                                if not done:
                                    out.extend(cand)
                                    done = True
                                continue
                            out.append(e)
                        for a in ats:
                            a.resnum, a.icode = n0, code
                        seen = set()
                        for a in pdbio.atoms_of(out):
                            while a.xyz in seen:
                                a.x += 1
                            seen.add(a.xyz)
                        return pdbio.write(out), True
        return s.text, False

    def altloc(s, pick):
        """Give one threaded residue two alternate-location rotamers (the coupling pattern may then differ between
        the conformations)."""
        entries = [e.copy() if isinstance(e, pdbio.Atom) else e for e in s.entries]
        res = pdbio.residues(entries)
        muts = s.info.get("mutated") or []
        if not muts:
            return s.text, False
        want = muts[pick % len(muts)]
        for (m, c, n, ic, t), ats in res:
            if "%s%d%s" % (t, n, c) == want and ats[0].rec == "ATOM":
                grid = gen.Grid(pdbio.atoms_of(entries))
                own = set(id(a) for a in ats)
                for attempt in range(1, 12):
                    cand = gen.mutate_residue(ats, t, pick + attempt * 3)
                    if cand is None:
                        break
                    side = [a for a in cand if a.aname not in pdbio.BACKBONE and a.aname not in pdbio.TERMINAL_O]
                    mine = {a.aname: a for a in ats}
                    moved = [a for a in side if a.aname in mine and a.xyz != mine[a.aname].xyz]
                    if moved and not any(id(b) not in own for a in side for b in grid.near(a, 2150)):
                        out = []
                        for e in entries:
                            out.append(e)
                            if isinstance(e, pdbio.Atom) and e is ats[-1]:
                                for a in side:
                                    a.alt = "B"
                                    out.append(a)
                        for a in ats:
                            if a.aname not in pdbio.BACKBONE and a.aname not in pdbio.TERMINAL_O:
                                a.alt = "A"
                        seen = set()
                        for a in pdbio.atoms_of(out):
                            while a.xyz in seen:
                                a.x += 1
                            seen.add(a.xyz)
                        return pdbio.write(out), True
        return s.text, False

    def body(s):
        text, tw = (s.text, False)
        if s.info.get("mutated") and len(s.text) % 3 == 1:
            text, al = altloc(s, len(s.text))
            if al:
                s.labels.append("alt-loc-rotamers")
        if s.info.get("mutated") and len(s.text) % 3 == 0:
            text, tw = twinned(s, "A")
        case = {"pdb": text}
        if len(text) % 7 in (0, 1, 2):
            # verbosity options must not change what the analysis does
            case["extra_opt"] = [["--log-level", "DEBUG"], ["-q"], ["--log-level", "WARNING"]][len(text) % 7]
            s.labels.append("verbosity-option")
        if len(text) % 5 == 0:
            case["flags"] = FLAGSETS[1 + (len(text) // 5) % 4]
            case["loose"] = bool((len(text) // 20) % 2)
            s.labels.append("coupling-switches")
        if len(text) % 4 == 3:
            case["thresholds"] = (len(text) // 4) % len(THRESHOLDS)
            s.labels.append("analysis-thresholds")
        s.labels.append("label-twins") if tw else None
        v, info = check_case(case)
        info["labels"] = info.get("labels", []) + [l for l in s.labels if l.startswith("cluster:") or l in ("label-twins", "alt-loc-rotamers", "coupling-switches", "verbosity-option", "analysis-thresholds")]
        info["sample"] = {"structure": s.summary(), "threaded": s.info.get("mutated"), "swap_calls": info.get("swaps")}
        ctx.account(case, v, info)

    ctx.hypothesis_stage("on-vs-off", cases(), body, 700 if quick else 9000)

    # the same comparison after a run that requested the display of alternative states in this process
    def after_display(s):
        observe.run(gen.corpus_text("1HPX"), ["-d"], name="d")
        body(s)

    ctx.hypothesis_stage("on-vs-off-after-a-display-run", cases(), after_display, 48 if quick else 1600)

    names = [(n, loose, fl, None) for n in ("1FTJ-Chain-A", "1HPX", "3SGB", "4DFR") for loose in (False, True)
             for fl in FLAGSETS]
    names += [(n, False, None, k) for n in ("1FTJ-Chain-A", "1HPX", "3SGB", "4DFR") for k in range(len(THRESHOLDS))]
    mine = [names[i] for i in ctx.my_slice(len(names))]

    def corpus_body(t):
        n, loose, fl, thr = t
        case = {"pdb": gen.corpus_text(n), "loose": loose, "flags": fl}
        if thr is not None:
            case["thresholds"] = thr
        v, info = check_case(case)
        info["labels"] = info.get("labels", []) + (["loose-coupling-parameters"] if loose else []) + \
            (["coupling-switches"] if fl else []) + (["analysis-thresholds"] if thr is not None else [])
        info["sample"] = {"structure": "corpus " + n, "loose_coupling_parameters": loose, "switches": fl,
                          "analysis_thresholds": THRESHOLDS[thr] if thr is not None else None,
                          "swap_calls": info.get("swaps")}
        ctx.account(case, v, info)

    ctx.loop_stage("corpus-files", mine, corpus_body)
