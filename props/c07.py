"""C07 - content the model does not use has no effect on any result.

Metamorphic oracle: the observation record (every group of every conformation and the average, all determinants,
the .pka text) of the edited input equals the record of the original input - bit for bit for edits that only add or
rewrite unused content, within 1e-9 for the --protonate-all and keep-protons clauses.
"""
from hypothesis import strategies as st

from vlib import gen, observe, pdbio, common, refs
from vlib.pdbio import Atom

PROPERTY = "C07"
REDUCE_KEYS = [["pdb", "edited"]]
LEVEL = "exploration"
RULE = ("corpus-derived structures (segments / balls of the reference proteins, threaded mutations, relabelled chains, "
        "library ligands and ions) x 1-3 edits drawn from: ignorable residues inserted as HETATM or ATOM at any residue "
        "boundary incl. chain starts; hydrogens with PDB-legal names (' H  ', '1HB ', 'HH11', '1HH1' ...); non-atom "
        "records (HEADER REMARK CRYST1 SEQRES HELIX SSBOND CONECT ANISOU MASTER blank short); rewritten serial "
        "(hybrid-36, duplicates, descending), occupancy, B-factor and columns 67-80, truncated lines; plus "
        "--protonate-all vs default and (amino-acid-only) the program's own hydrogens fed back with --keep-protons. "
        "Non-trivial: the edit changed the text and the structure has >= 1 reported group with a determinant "
        "(for --protonate-all: it added >= 1 hydrogen); distinct by hash of (input, edited input, options).")
ASSUMPTIONS = [
    "END records are only appended at the end of the file; blank serial fields are not generated (malformed per C19)",
    "open findings F16 (--protonate-all next to incomplete residues) and F19 (COO-ARG angle partner taken from a "
    "bond list) excluded by signature",
    "keep-protons clause: skipped (counted as 'h-ambiguous') when a constructed hydrogen lies within 1.5 A of a heavy "
    "atom other than its parent, because bond perception then legitimately differs",
]

IGNORABLE = ["HOH", "H2O", "SO4", "PO4", "PEG", "EPE", "TRS"]
JUNK = [
    "HEADER    HYDROLASE                               01-JAN-00   XXXX              \n",
    "REMARK   2 RESOLUTION.    1.80 ANGSTROMS.                                       \n",
    "CRYST1   45.280   45.280   87.000  90.00  90.00  90.00 P 41 21 2     8          \n",
    "SEQRES   1 A   21  GLY ILE VAL GLU GLN CYS CYS THR SER ILE CYS SER LEU          \n",
    "HELIX    1   1 GLY A    1  CYS A    7  1                                   7    \n",
    "SSBOND   1 CYS A    6    CYS A   11                          1555   1555  2.03  \n",
    "CONECT   43   76                                                                \n",
    "ANISOU    1  N   GLY A   1     2406   1892   1614    198    519   -328       N  \n",
    "MASTER      300    0    4    8   10    0    7    6 2028    1   24   17          \n",
    "SIGATM    1  N   GLY A   1       0.040   0.030   0.050  0.00  0.00           N  \n",
    "\n", "REMARK\n", "JRNL        AUTH   A.B.SMITH\n", "HETNAM     MTX METHOTREXATE\n", "ENDMDL\n",
]
HNAMES = [" H  ", " HA ", "1HB ", " HB2", "HH11", "1HH1", "2HH2", "1HD2", " HG1", "HD21", " HE2", "3HZ ", " HZ1",
          "1HG1"]


# ---- edits ---------------------------------------------------------------------------------------------------------

def _insert_positions(entries):
    """Indices at residue boundaries (incl. 0 and len)."""
    pos = [0]
    prev = None
    for i, e in enumerate(entries):
        if isinstance(e, Atom):
            k = (e.chain, e.resnum, e.icode, e.resn)
            if prev is not None and k != prev:
                pos.append(i)
            prev = k
        else:
            pos.append(i)
            prev = None
    pos.append(len(entries))
    return sorted(set(pos))


@st.composite
def edits(draw, structure, allow_hydrogens=True):
    entries = [e.copy() if isinstance(e, Atom) else e for e in structure.entries]
    labels = []
    used = {a.xyz for a in pdbio.atoms_of(entries)}
    atoms = pdbio.atoms_of(entries)
    nedits = draw(st.integers(1, 3))
    for _ in range(nedits):
        kind = draw(st.sampled_from(["water", "water", "hydrogen", "hydrogen", "junk", "serial", "serial", "columns",
                                     "truncate", "pad"]))
        if kind == "hydrogen" and not allow_hydrogens:
            kind = "water"          # with keep-protons, input hydrogens are used by design
        labels.append("edit:" + kind)
        if kind == "water":
            n = draw(st.integers(1, 4))
            for _i in range(n):
                pos = _insert_positions(entries)
                where = draw(st.sampled_from(["start", "after-ter", "any", "any", "end"]))
                if where == "start":
                    p = 0
                elif where == "end":
                    p = len(entries)
                elif where == "after-ter":
                    ters = [i + 1 for i, e in enumerate(entries) if not isinstance(e, Atom) and e.startswith("TER")]
                    p = ters[draw(st.integers(0, len(ters) - 1))] if ters else 0
                else:
                    p = pos[draw(st.integers(0, len(pos) - 1))]
                anchor = atoms[draw(st.integers(0, len(atoms) - 1))]
                resn = draw(st.sampled_from(IGNORABLE + ["HOH", "HOH"]))
                rec = draw(st.sampled_from(["HETATM", "HETATM", "ATOM"]))
                off = (draw(st.integers(-4000, 4000)), draw(st.integers(-4000, 4000)), draw(st.integers(-4000, 4000)))
                names = {"HOH": [" O  "], "H2O": [" O  "], "SO4": [" S  ", " O1 ", " O2 ", " O3 ", " O4 "],
                         "PO4": [" P  ", " O1 ", " O2 "], "PEG": [" C1 ", " O1 ", " C2 "], "EPE": [" N1 ", " C2 "],
                         "TRS": [" C  ", " N  ", " O1 "]}[resn]
                chain = draw(st.sampled_from([anchor.chain, "W", " "]))
                num = draw(st.sampled_from([anchor.resnum, anchor.resnum + 1, 1, 0, 501, 2001]))
                new = []
                for j, nm in enumerate(names):
                    xyz = (anchor.x + off[0] + 1100 * j, anchor.y + off[1], anchor.z + off[2])
                    while xyz in used:
                        xyz = (xyz[0] + 1, xyz[1], xyz[2])
                    used.add(xyz)
                    new.append(Atom(rec=rec, name=nm, resn=resn, chain=chain, resnum=num, x=xyz[0], y=xyz[1],
                                    z=xyz[2], serial="%5d" % (9000 + j)))
                entries[p:p] = new
                labels.append("ign:%s:%s:%s" % (rec, resn, where))
        elif kind == "hydrogen":
            n = draw(st.integers(1, 6))
            for _i in range(n):
                idx = [i for i, e in enumerate(entries) if isinstance(e, Atom) and e.resn.strip() not in IGNORABLE]
                i = idx[draw(st.integers(0, len(idx) - 1))]
                parent = entries[i]
                d = gen.DIRECTIONS[draw(st.integers(0, len(gen.DIRECTIONS) - 1))]
                nrm = sum(c * c for c in d) ** 0.5
                xyz = tuple(int(p + 1000 * c / nrm) for p, c in zip(parent.xyz, d))
                while xyz in used:
                    xyz = (xyz[0] + 1, xyz[1], xyz[2])
                used.add(xyz)
                h = parent.copy()
                h.name = draw(st.sampled_from(HNAMES))
                h.x, h.y, h.z = xyz
                h.tail = draw(st.sampled_from(["", "           H  ", "           H1+"]))
                # after the parent's residue or right after the parent
                j = i + 1
                if draw(st.booleans()):
                    while j < len(entries) and isinstance(entries[j], Atom) and \
                            (entries[j].chain, entries[j].resnum, entries[j].icode) == \
                            (parent.chain, parent.resnum, parent.icode):
                        j += 1
                entries.insert(j, h)
            labels.append("hname-mix")
        elif kind == "junk":
            n = draw(st.integers(1, 4))
            for _i in range(n):
                line = draw(st.sampled_from(JUNK))
                if line.startswith("SSBOND"):
                    # an annotation that names cysteines of this structure (bridged or not: stale annotations exist)
                    cys = sorted({(a.chain, a.resnum, a.icode) for a in pdbio.atoms_of(entries) if a.resn == "CYS"})
                    if cys:
                        c1 = cys[draw(st.integers(0, len(cys) - 1))]
                        c2 = cys[draw(st.integers(0, len(cys) - 1))]
                        line = "SSBOND   1 CYS %s %4d%s   CYS %s %4d%s                          1555   1555  2.03  \n" % (
                            c1[0], c1[1], c1[2], c2[0], c2[1], c2[2])
                        labels.append("ssbond-names-cys")
                where = draw(st.sampled_from(["start", "start", "any", "end"]))
                p = 0 if where == "start" else len(entries) if where == "end" else \
                    draw(st.integers(0, len(entries)))
                entries.insert(p, line)
        elif kind == "serial":
            mode = draw(st.sampled_from(["hy36", "dup", "desc", "const", "random", "negative"]))
            labels.append("serial:" + mode)
            ats = pdbio.atoms_of(entries)
            base = draw(st.integers(0, 87000000))
            for k, a in enumerate(ats):
                if mode == "hy36":
                    n = min(base + k, 87440031)
                elif mode == "dup":
                    n = 1 + (k // 2)
                elif mode == "desc":
                    n = 99999 - k
                elif mode == "const":
                    n = base % 99999
                elif mode == "negative":
                    n = -(k % 9999)
                else:
                    n = draw(st.integers(-9999, 87440031))
                enc = refs.hy36_encode(5, n)
                a.serial = enc.rjust(5) if draw(st.sampled_from([True, True, False])) or len(enc) == 5 \
                    else enc.ljust(5)
        elif kind == "columns":
            mode = draw(st.sampled_from(["occ", "bfac", "tail", "all"]))
            labels.append("columns:" + mode)
            for a in pdbio.atoms_of(entries):
                if mode in ("occ", "all"):
                    a.occ = draw(st.sampled_from(["  0.50", "  0.00", "      ", "  1.00", " 12.34", "-1.000"]))
                if mode in ("bfac", "all"):
                    a.bfac = draw(st.sampled_from([" 99.99", "  0.00", "      ", "100.00", "-5.000"]))
                if mode in ("tail", "all"):
                    a.tail = draw(st.sampled_from(["", "          FE  ", "      SEGA H  ", "           C1-", "           O2+",
                                                   "      XXXX    ", "           H  "]))
        elif kind == "pad":
            # trailing blanks / columns 73-80 of full-width records
            for a in pdbio.atoms_of(entries):
                a.tail = (a.tail + " " * 14)[:14] + draw(st.sampled_from(["", "    ", "1ABC  12"]))
        elif kind == "truncate":
            for a in pdbio.atoms_of(entries):
                a.tail = ""
                if draw(st.sampled_from([True, False])):
                    a.occ, a.bfac = "", ""
    return entries, labels


# ---- oracle ----------------------------------------------------------------------------------------------------------

def compare_runs(text_a, opt_a, text_b, opt_b, tol, clause, compare_text):
    ra = observe.run(text_a, opt_a, name="a")
    rb = observe.run(text_b, opt_b, name="a")
    violations = []
    if ra["error"] and rb["error"] and ra["error"]["type"] == rb["error"]["type"]:
        return [], ra, rb, "both-error"
    km = common.xyz_keymap(text_b, text_a)
    diffs = observe.compare_records(ra, rb, tol=tol, keymap=km)
    if diffs:
        violations.append({"clause": clause, "detail": common.fmt_diffs(diffs)})
    elif compare_text and ra["pka_text"] != rb["pka_text"]:
        la, lb = ra["pka_text"].splitlines(), rb["pka_text"].splitlines()
        first = next((i for i, (x, y) in enumerate(zip(la, lb)) if x != y), min(len(la), len(lb)))
        violations.append({"clause": clause + "/pka-text",
                           "detail": "line %d: %r vs %r" % (first, la[first:first + 1], lb[first:first + 1])})
    return violations, ra, rb, None


def check_case(case):
    kind = case["kind"]
    base = case["pdb"]
    if kind == "edit":
        v, ra, rb, note = compare_runs(base, case["optargs"], case["edited"], case["optargs"], 0.0,
                                       "edit-no-effect", True)
        stats = common.interaction_stats(ra) if not ra["error"] else {"with_dets": 0}
        info = {"nontrivial": case["edited"] != base and stats["with_dets"] >= 1 and note is None,
                "labels": list(case.get("labels", [])) + ([note] if note else [])}
        return v, info
    if kind == "protonate-all":
        ra = observe.run(base, case["optargs"], name="a", want_atoms=True)
        rb = observe.run(base, list(case["optargs"]) + ["--protonate-all"], name="a", want_atoms=True)
        if ra["error"] and rb["error"] and ra["error"]["type"] == rb["error"]["type"]:
            return [], {"labels": ["both-error"]}
        diffs = observe.compare_records(ra, rb, tol=1e-9)
        v = [{"clause": "protonate-all-no-effect", "detail": common.fmt_diffs(diffs),
              "sig": incomplete_sig(base, [d["key"] for d in diffs])}] if diffs else []
        added = 0
        if not ra["error"] and not rb["error"]:
            for c in ra["conf_names"]:
                ha = sum(1 for a in ra["confs"][c]["atoms"] if a["elem"] == "H")
                hb = sum(1 for a in rb["confs"][c]["atoms"] if a["elem"] == "H")
                added += hb - ha
        stats = common.interaction_stats(ra) if not ra["error"] else {"with_dets": 0}
        return v, {"nontrivial": added > 0 and stats["with_dets"] >= 1,
                   "labels": list(case.get("labels", [])) + ["protonate-all"]}
    if kind == "keep-protons":
        ra = observe.run(base, case["optargs"], name="a", want_atoms=True)
        if ra["error"]:
            return [], {"labels": ["base-error"]}
        src = ra
        if case.get("all_hydrogens"):
            # the hydrogens of a --protonate-all run are the program's own hydrogens as well
            src = observe.run(base, list(case["optargs"]) + ["--protonate-all"], name="a", want_atoms=True)
            if src["error"]:
                return [], {"labels": ["base-error"]}
        fed, ambiguous, nh = feed_back_hydrogens(base, src)
        if ambiguous:
            return [], {"labels": ["h-ambiguous"]}
        rb = observe.run(fed, list(case["optargs"]) + ["--keep-protons"], name="a")
        km = common.xyz_keymap(fed, base)
        diffs = observe.compare_records(ra, rb, tol=1e-9, keymap=km)
        v = [{"clause": "keep-protons-round-trip", "detail": common.fmt_diffs(diffs)}] if diffs else []
        for x in v:
            # open findings: F16 (only when the hydrogens of a --protonate-all run are fed back) and F19 (the bond list
            # of an ARG nitrogen starts with a hydrogen once hydrogens are read from the file)
            x["sig"] = (incomplete_sig(base, [d["key"] for d in diffs]) if case.get("all_hydrogens") else None) \
                or coo_arg_sig(ra, rb, diffs, km)
        stats = common.interaction_stats(ra)
        return v, {"nontrivial": nh > 0 and stats["with_dets"] >= 1,
                   "labels": list(case.get("labels", [])) + ["keep-protons" + ("-all" if case.get("all_hydrogens")
                                                                                 else "")]}
    raise ValueError(kind)


def coo_arg_sig(ra, rb, diffs, keymap):
    """'coo-arg-bond-order' if every differing group is a COO or ARG group with a side-chain determinant towards a
    group of the other type (open finding F19)."""
    if not diffs:
        return None
    for d in diffs:
        c = d["conf"]
        ga = next((g for g in ra["confs"].get(c, {"groups": []})["groups"]
                   if g["key"] == d["key"] and g["type"] in ("COO", "ARG")), None)
        if ga is None:
            return None
        other = "ARG" if ga["type"] == "COO" else "COO"
        partners = {g["key"]: g for g in ra["confs"][c]["groups"] if g["type"] == other}
        if not any(pk in partners for pk, _l, _v in ga["dets"]["sidechain"]):
            return None
    return "coo-arg-bond-order"


def incomplete_sig(text, keys):
    """'incomplete-residue-protonation' if every given file index lies within 15 A of an amino-acid residue whose
    heavy-atom set differs from its template or that is bonded (reference rule) into another residue (open finding
    F16)."""
    from vlib import templates
    entries = pdbio.parse(text)
    atoms = pdbio.atoms_of(entries)
    bad = []
    for (m, c, n, ic, t), ats in pdbio.residues([a for a in atoms if not a.is_h]):
        if ats[0].rec == "ATOM" and t in templates.SIDE_BONDS:
            names = sorted(a.aname for a in ats)
            want, _b = templates.template(t, "OXT" in names)
            if names != sorted(want):
                bad.extend(ats)
    # ... or that is covalently entangled with another residue (interpenetrating threaded side chain: bonds by the
    # reference rule other than the peptide link and S-S): its atoms have irregular bond counts just the same
    heavy = [a for a in atoms if not a.is_h]
    grid = gen.Grid(heavy)
    for a in heavy:
        if a.rec != "ATOM":
            continue
        for b in grid.near(a, 2600):
            if b is a or (b.chain, b.resnum, b.icode) == (a.chain, a.resnum, a.icode):
                continue
            if {a.aname, b.aname} == {"N", "C"} or (a.aname == "SG" and b.aname == "SG"):
                continue
            if refs.ref_bonded(a.element, a.xyz, b.element, b.xyz)[0]:
                bad.append(a)
                break
    if not bad or not keys:
        return None
    for k in keys:
        if not isinstance(k, int) or not any(pdbio.sq_dist(atoms[k], b) < 15000 ** 2 for b in bad):
            return None
    return "incomplete-residue-protonation"


def feed_back_hydrogens(text, rec, conf=None):
    """Write the hydrogens propka constructed (conformation ``conf``, default the first) back into the input."""
    entries = pdbio.parse(text)
    atoms = pdbio.atoms_of(entries)
    cname = conf or rec["conf_names"][0]
    hs = {}
    for a in rec["confs"][cname]["atoms"]:
        if a["elem"] == "H" and isinstance(a["key"], tuple) and a["key"][0] == "H" and isinstance(a["key"][1], int):
            hs.setdefault(a["key"][1], []).append(a)
    heavy = [a for a in atoms if not a.is_h]
    ambiguous = False
    grid = gen.Grid(heavy)
    out = []
    nh = 0
    # position: after the last atom of the parent's residue
    last_of = {}
    for i, e in enumerate(entries):
        if isinstance(e, Atom):
            last_of[(e.model, e.chain, e.resnum, e.icode)] = i
    inserts = {}
    for pk, lst in hs.items():
        parent = atoms[pk]
        for h in lst:
            hatom = parent.copy()
            hatom.name = pdbio.name_field(h["name"], "H") if len(h["name"]) < 4 else h["name"][:4]
            hatom.x, hatom.y, hatom.z = h["xyz"]
            hatom.tail = ""
            near = grid.near(hatom, 1500)
            if any(b is not parent for b in near):
                ambiguous = True
            inserts.setdefault(last_of[(parent.model, parent.chain, parent.resnum, parent.icode)], []).append(hatom)
            nh += 1
    for i, e in enumerate(entries):
        out.append(e)
        if i in inserts:
            out.extend(inserts[i])
    return pdbio.write(out), ambiguous, nh


def replay(case):
    return check_case(case)[0]


OPTSETS = [[], [], [], ["--protonate-all"], ["-k"]]


def run_shard(ctx):
    quick = ctx.tier == "quick"

    @st.composite
    def edit_cases(draw):
        s = draw(gen.structures(max_res=30 if quick else 60))
        opt = draw(st.sampled_from(OPTSETS))
        entries, labels = draw(edits(s, allow_hydrogens="-k" not in opt))
        return s, pdbio.write(entries), labels, opt

    def body(t):
        s, edited, labels, opt = t
        case = {"kind": "edit", "pdb": s.text, "edited": edited, "optargs": opt, "labels": labels}
        v, info = check_case(case)
        info["labels"] = [l for l in info["labels"] if l.startswith(("edit:", "serial:", "columns:"))] + \
                         [l for l in info["labels"] if l in ("both-error",)] + \
                         [l.rsplit(":", 1)[0] for l in labels if l.startswith("ign:")]
        info["sample"] = {"structure": s.summary(), "edits": labels[:8], "optargs": opt}
        ctx.account(case, v, info)

    ctx.hypothesis_stage("edits", edit_cases(), body, 2500 if quick else 40000)

    def pa_body(s):
        case = {"kind": "protonate-all", "pdb": s.text, "optargs": [], "labels": []}
        v, info = check_case(case)
        info["sample"] = {"structure": s.summary(), "clause": "--protonate-all vs default"}
        ctx.account(case, v, info)

    ctx.hypothesis_stage("protonate-all", gen.structures(max_res=30 if quick else 60), pa_body,
                         800 if quick else 12000)

    def kp_body(s):
        case = {"kind": "keep-protons", "pdb": s.text, "optargs": [], "labels": []}
        v, info = check_case(case)
        info["sample"] = {"structure": s.summary(), "clause": "own hydrogens fed back with -k"}
        ctx.account(case, v, info)

    ctx.hypothesis_stage("keep-protons", gen.structures(max_res=30 if quick else 60, allow_hetero=False), kp_body,
                         800 if quick else 12000)

    def kpa_body(s):
        case = {"kind": "keep-protons", "pdb": s.text, "optargs": [], "labels": [], "all_hydrogens": True}
        v, info = check_case(case)
        info["sample"] = {"structure": s.summary(), "clause": "all hydrogens of a --protonate-all run fed back with -k"}
        ctx.account(case, v, info)

    ctx.hypothesis_stage("keep-protons-all-hydrogens", gen.structures(max_res=30 if quick else 60, allow_hetero=False,
                                                                       allow_clash=False), kpa_body,
                         500 if quick else 8000)


def _unused():
    pass


# ---- used by C19: the serial column never influences predictions -------------------------------------------------

def serial_stage(ctx, total):
    from vlib import genconf

    @st.composite
    def cases(draw):
        if draw(st.integers(0, 2)) == 0:
            text, info = draw(genconf.multi_conformation(max_res=12, kinds=("models", "altloc")))
            s = gen.Structure(pdbio.parse(text), info["labels"])
        else:
            s = draw(gen.structures(max_res=25))
        entries = [e.copy() if isinstance(e, Atom) else e for e in s.entries]
        mode = draw(st.sampled_from(["hy36-run", "random", "dup", "desc", "restart", "restart"]))
        base = draw(st.sampled_from([0, 99990, 100000 + 26 * 36 ** 4 - 20, 87440031 - 3000, 43770000]))
        prev, n = None, 0
        for k, a in enumerate(pdbio.atoms_of(entries)):
            if k == 0:
                prev = a
            if mode == "hy36-run":
                n = min(base + k, 87440031)
            elif mode == "dup":
                n = base % 99999
            elif mode == "desc":
                n = 87440031 - k
            elif mode == "restart":
                # numbering starts again at 1 with every MODEL record / chain (concatenated files)
                n = 1 if (k == 0 or a.model != prev.model or a.chain != prev.chain) else n + 1
                prev = a
            else:
                n = draw(st.integers(-9999, 87440031))
            a.serial = refs.hy36_encode(5, n).rjust(5)
        return s, pdbio.write(entries), mode

    def body(t):
        s, edited, mode = t
        inner = {"kind": "edit", "pdb": s.text, "edited": edited, "optargs": [], "labels": ["serial:" + mode]}
        v, info = check_case(inner)
        for x in v:
            x["clause"] = "serial-no-influence"
        info["labels"] = ["serial:" + mode]
        info["sample"] = {"structure": s.summary(), "serial_mode": mode}
        ctx.account({"kind": "serial", "c07": inner}, v, info)

    ctx.hypothesis_stage("serial-column", cases(), body, total)
