"""C17 - added hydrogens are chemically placed and complete.

Oracle: geometric predicates on every hydrogen the program constructs (exactly one bonded atom, which is heavy and
lists the hydrogen back; tabulated X-H length within coordinate rounding; any two hydrogens on one atom >= 0.5 A
apart); for complete residues with regular covalent geometry (template graph under the reference bond rule, chain
neighbours present) the full complement (His 2, Arg 5, Asn/Gln 2, Trp 1, backbone amide 1 except Pro and chain
starts) and no 'missing atoms or failed protonation' warning; the hydrogen set is the same, up to one grid step, in
every orientation.
"""
import re

from hypothesis import strategies as st

from vlib import gen, observe, pdbio, common, templates
from vlib.pdbio import Atom
from props import c04

PROPERTY = "C17"
REDUCE_KEYS = ["pdb"]
LEVEL = "exploration"
RULE = ("(i) generated structures (segments / balls of the reference proteins with threaded side chains, no clashes, "
        "truncations, TER-less gaps) in a drawn one of the 24 grid orientations and a drawn translation, default and "
        "--protonate-all, residues classified 'regular' by the template graph under the reference bond rule; (ii) "
        "arbitrary heavy-atom environments: every library ligand and synthetic centres (C, N, O, S, P, F, Cl, Br, I, "
        "Se) with 0-3 neighbours, planar or pyramidal, protonated with --protonate-all. Non-trivial: the structure "
        "contains a regular HIS/ARG/ASN/GLN/TRP residue (i) or a synthetic centre (ii); distinct by hash.")
ASSUMPTIONS = [
    "'regular covalent geometry' = the residue has exactly its template atoms, its reference-rule bond graph equals "
    "the template, the peptide bonds to both neighbours exist (or a terminal oxygen / chain start), and no other atom "
    "is within bonding distance; other residues are outside the completeness claim and are counted as such",
    "X-H length tolerance 0.0015 A (three coordinates rounded to 0.001 A)",
    "open finding F11 (frame-dependent rotamer for atoms with a single heavy neighbour) excluded from the orientation "
    "clause by signature",
]
XH = {"C": 1.09, "N": 1.01, "O": 0.96, "S": 1.35, "F": 0.92, "Cl": 1.27, "Br": 1.41, "I": 1.61}
WARN = re.compile(r"Missing atoms or failed protonation for (.{9}) \((\w+\+?-?)\)")


def geometry_violations(conf_rec):
    v = []
    atoms = conf_rec["atoms"]
    by_key = {}
    for a in atoms:
        by_key[a["key"] if not isinstance(a["key"], list) else tuple(a["key"])] = a
    per_parent = {}
    for a in atoms:
        if a["elem"] != "H" or a["from_file"]:
            continue
        bonded = [tuple(b) if isinstance(b, list) else b for b in a["bonded"]]
        if len(bonded) != 1:
            v.append({"clause": "h/one-parent", "detail": "hydrogen %s at %r has %d bonded atoms" % (
                a["name"], a["xyz"], len(bonded))})
            continue
        p = by_key.get(bonded[0])
        if p is None or p["elem"] == "H":
            v.append({"clause": "h/heavy-parent", "detail": "hydrogen %s at %r bonded to %r" % (a["name"], a["xyz"],
                                                                                            bonded[0])})
            continue
        back = [tuple(b) if isinstance(b, list) else b for b in p["bonded"]]
        mykey = tuple(a["key"]) if isinstance(a["key"], (list, tuple)) else a["key"]
        if mykey not in back:
            v.append({"clause": "h/parent-lists-back", "detail": "parent %s does not list hydrogen %s" % (p["name"],
                                                                                                     a["name"])})
        d = sum((x - y) ** 2 for x, y in zip(a["xyz"], p["xyz"])) ** 0.5 / 1000.0
        want = XH.get(p["elem"], 1.0)
        if abs(d - want) > 0.0015:
            v.append({"clause": "h/bond-length", "detail": "%s-%s on %s %s%d: %.4f A, tabulated %.2f" % (
                p["elem"], a["name"], p["name"], p["resname"], p["resnum"], d, want)})
        per_parent.setdefault(bonded[0], []).append(a)
    # hydrogens read from the file (keep-protons) count towards the complement of their parent
    for a in atoms:
        if a["elem"] == "H" and a["from_file"]:
            bonded = [tuple(b) if isinstance(b, list) else b for b in a["bonded"]]
            for b in bonded:
                per_parent.setdefault(b, []).append(a)
    for pk, hs in per_parent.items():
        for i in range(len(hs)):
            for j in range(i + 1, len(hs)):
                d = sum((x - y) ** 2 for x, y in zip(hs[i]["xyz"], hs[j]["xyz"])) ** 0.5 / 1000.0
                if d < 0.5:
                    v.append({"clause": "h/distinct-positions", "detail": "two hydrogens on %r only %.3f A apart" % (
                        pk, d)})
    # no hydrogen sits on top of another one, whatever the bond graph says (a hydrogen read from the file that was not
    # attached to its atom and was then built again shows up here: same place, two atoms)
    cells = {}
    for a in atoms:
        if a["elem"] == "H":
            cells.setdefault(tuple(c // 500 for c in a["xyz"]), []).append(a)
    done = False
    for cell, hs in cells.items():
        near = []
        for dx in (-1, 0, 1):
            for dy in (-1, 0, 1):
                for dz in (-1, 0, 1):
                    near += cells.get((cell[0] + dx, cell[1] + dy, cell[2] + dz), [])
        for a in hs:
            for b in near:
                if a is b or (not a["from_file"] and not b["from_file"] and a["bonded"] == b["bonded"]):
                    continue             # (siblings built by the program are judged above)
                if a["from_file"] and b["from_file"] and a["xyz"] != b["xyz"]:
                    continue             # two distinct hydrogens of the input: not the program's doing
                d = sum((x - y) ** 2 for x, y in zip(a["xyz"], b["xyz"])) ** 0.5 / 1000.0
                if d < 0.01:
                    v.append({"clause": "h/distinct-positions", "detail": "hydrogens %s and %s on %s%d only %.3f A "
                              "apart (bonded to %r / %r)" % (a["name"], b["name"], a["resname"], a["resnum"], d,
                                                             a["bonded"], b["bonded"])})
                    done = True
                    break
            if done:
                break
        if done:
            break
    return v, per_parent


def check_case(case):
    text, opt = case["pdb"], list(case.get("optargs", []))
    rot_i, trans = case.get("rot", 0), tuple(case.get("trans", (0, 0, 0)))
    if case.get("feed_back"):
        # the program's own hydrogens are written into the input and kept (--keep-protons)
        from props import c07
        r0 = observe.run(text, [], name="a", want_atoms=True)
        if r0["error"]:
            return [], {"labels": ["error:" + r0["error"]["type"]]}
        text, amb, _n = c07.feed_back_hydrogens(text, r0)
        if amb:
            return [], {"labels": ["h-ambiguous"]}
        opt = ["--keep-protons"]
    ttext = c04.moved_text(text, rot_i, trans) if (rot_i or any(trans)) else text
    rec = observe.run(ttext, opt, name="a", want_atoms=True, capture=True)
    if rec["error"]:
        return [], {"labels": ["error:" + rec["error"]["type"]]}
    entries = pdbio.parse(ttext)
    atoms = pdbio.atoms_of(entries)
    v = []
    labels = []
    nontrivial = False
    for c in rec["conf_names"][:1]:
        gv, per_parent = geometry_violations(rec["confs"][c])
        v += gv
        if case.get("regular", True) and len(rec["conf_names"]) == 1:
            reg = templates.regular_residues(entries)
            count = lambda k: len(per_parent.get(k, []))
            index = {id(a): i for i, a in enumerate(atoms)}
            warned = set()
            for w in rec["warnings"]:
                m = WARN.search(w)
                if m:
                    warned.add(m.group(1))
            nreg = 0
            twin_positions = {(a.chain, a.resnum) for a in common.twin_atoms(entries)}
            for key, info in reg.items():
                t = info["resname"]
                at = {a.aname: index[id(a)] for a in info["atoms"]}
                want = {}
                if t == "HIS":
                    want["ring N-H"] = (count(at["ND1"]) + count(at["NE2"]), 2)
                elif t == "ARG":
                    want["guanidinium N-H"] = (count(at["NE"]) + count(at["NH1"]) + count(at["NH2"]), 5)
                elif t == "ASN":
                    want["amide N-H"] = (count(at["ND2"]), 2)
                elif t == "GLN":
                    want["amide N-H"] = (count(at["NE2"]), 2)
                elif t == "TRP":
                    want["indole N-H"] = (count(at["NE1"]), 1)
                if t != "PRO" and not info["nterm"]:
                    want["backbone N-H"] = (count(at["N"]), 1)
                if t in ("HIS", "ARG", "ASN", "GLN", "TRP"):
                    nontrivial = True
                nreg += 1
                for what, (got, exp) in want.items():
                    if got != exp:
                        v.append({"clause": "complement", "detail": "regular %s %s%d%s: %s %d, expected %d" % (
                            t, key[0], key[1], key[2].strip(), what, got, exp)})
                chain = key[0].strip() or "_"
                if (key[0], key[1]) in twin_positions:
                    continue        # the warning names residues by chain+number only: cannot be attributed to a twin
                for lab in warned:
                    if lab[3:] == "%4d%2s" % (key[1], chain) and key[2] == " " and lab[:3].strip() in (t, "N+", "C-"):
                        v.append({"clause": "no-warning-for-regular-residue", "detail": "warning issued for %r although "
                                  "residue %s %r is complete and regular" % (lab, t, key),
                                  "sig": "icode-twin" if common.twin_atoms(entries) else None})
            labels.append("regular:%s" % ("0" if nreg == 0 else "1-9" if nreg < 10 else "10+"))
    # orientation clause: same hydrogen set, up to one grid step, as in the unmoved frame
    if not v and (rot_i or any(trans)) and case.get("orientation", True):
        r0 = observe.run(text, opt, name="a", want_atoms=True)
        if not r0["error"]:
            rot = pdbio.ROTATIONS[rot_i]
            for c in r0["conf_names"][:1]:
                h0, ht = c04.h_by_parent(r0["confs"][c]), c04.h_by_parent(rec["confs"][c])
                for parent in set(h0) | set(ht):
                    a = sorted(h0.get(parent, []))
                    b = sorted(pdbio.invert_motion(x, rot, trans) for x in ht.get(parent, []))
                    src = pdbio.atoms_of(pdbio.parse(text))
                    is_het = isinstance(parent, int) and src[parent].rec == "HETATM"
                    if is_het:
                        continue          # hetero groups: frame-dependent rotamers by design (statement of C04)
                    bad = len(a) != len(b)
                    left = list(b)
                    for p in a:
                        m = next((q for q in left if max(abs(p[i] - q[i]) for i in range(3)) <= 1), None)
                        if m is None:
                            bad = True
                            break
                        left.remove(m)
                    if bad:
                        v.append({"clause": "same-hydrogens-in-every-orientation", "detail": "parent %r (%s): %r vs "
                                  "mapped-back %r" % (parent, src[parent].line()[12:27] if isinstance(parent, int)
                                                     else "?", a, b),
                                  "sig": c04.free_rotamer_sig(pdbio.parse(text), parent)
                                  or c04.f8_sig(pdbio.parse(text), [parent])})
                        break
    return v[:6], {"labels": labels, "nontrivial": nontrivial}


def replay(case):
    return check_case(case)[0]


def synthetic_centre(draw):
    """A hetero molecule: a centre with 0-3 neighbours in planar or pyramidal arrangement."""
    el = draw(st.sampled_from(["C", "N", "O", "S", "P", "F", "Cl", "Br", "I", "Se", "C", "N"]))
    nn = draw(st.integers(0, 3))
    shape = draw(st.sampled_from(["planar", "pyramidal", "linear"]))
    dirs = {"planar": [(1, 0, 0), (-0.5, 0.866, 0), (-0.5, -0.866, 0)],
            "pyramidal": [(0.943, 0, -0.333), (-0.471, 0.816, -0.333), (-0.471, -0.816, -0.333)],
            "linear": [(1, 0, 0), (-1, 0, 0), (0, 1, 0)]}[shape]
    name = {"C": " C1 ", "N": " N1 ", "O": " O1 ", "S": " S1 ", "P": " P1 ", "F": " F1 ", "Cl": "CL1 ", "Br": "BR1 ",
            "I": " I1 ", "Se": "SE1 "}[el]
    atoms = [(name, 0, 0, 0)]
    for i in range(nn):
        nel = draw(st.sampled_from(["C", "C", "N", "O"]))
        bl = draw(st.sampled_from([1450, 1520, 1230, 1800]))
        d = dirs[i]
        atoms.append((" %s%d " % (nel, i + 2), int(d[0] * bl), int(d[1] * bl), int(d[2] * bl)))
    return atoms, "%s/%d/%s" % (el, nn, shape)


def run_shard(ctx):
    quick = ctx.tier == "quick"

    @st.composite
    def cases(draw):
        s = draw(gen.structures(max_res=36 if quick else 70, allow_clash=False, allow_hetero=draw(st.booleans())))
        rot_i, trans, kind = draw(c04.motion_strategy(pdbio.bbox(s.entries)))
        opt = draw(st.sampled_from([[], [], ["--protonate-all"]]))
        return s, rot_i, trans, opt

    def body(t):
        s, rot_i, trans, opt = t
        case = {"pdb": s.text, "rot": rot_i, "trans": list(trans), "optargs": opt}
        v, info = check_case(case)
        info["labels"] = info.get("labels", []) + (["protonate-all"] if opt else [])
        info["sample"] = {"structure": s.summary(), "rotation": pdbio.ROTATIONS[rot_i], "translation_mA": trans,
                          "optargs": opt}
        ctx.account(case, v, info)

    ctx.hypothesis_stage("residues-in-all-orientations", cases(), body, 1600 if quick else 24000)

    def kp_body(s):
        case = {"pdb": s.text, "feed_back": True, "orientation": False}
        v, info = check_case(case)
        info["labels"] = info.get("labels", []) + ["keep-protons"]
        info["sample"] = {"structure": s.summary(), "mode": "own hydrogens fed back with --keep-protons"}
        ctx.account(case, v, info)

    ctx.hypothesis_stage("keep-protons-complement", gen.structures(max_res=30, allow_clash=False, allow_hetero=True),
                         kp_body, 400 if quick else 6000)

    @st.composite
    def envs(draw):
        mols = []
        tags = []
        for k in range(draw(st.integers(1, 4))):
            if draw(st.booleans()):
                key = draw(st.sampled_from(sorted(gen.LIGANDS)))
                mols.append((gen.LIGANDS[key]["resn"], gen.LIGANDS[key]["atoms"]))
                tags.append("lig:" + key)
            else:
                atoms, tag = synthetic_centre(draw)
                mols.append(("SYN", atoms))
                tags.append("env:" + tag)
        entries = []
        for k, (resn, atoms) in enumerate(mols):
            rot = pdbio.ROTATIONS[draw(st.integers(0, 23))]
            # molecules are kept apart (30 A spacing) so that each centre only sees its own neighbours
            origin = (draw(st.integers(-5000, 5000)) + 30000 * k, draw(st.integers(-20000, 20000)),
                      draw(st.integers(-500000, 500000)))
            entries.extend(gen.hetero_residue(resn, atoms, "L", 1 + k, rot, origin))
        pdbio.renumber_serials(entries)
        return pdbio.write(entries), tags

    def env_body(t):
        text, tags = t
        case = {"pdb": text, "optargs": ["--protonate-all"], "regular": False, "orientation": False}
        v, info = check_case(case)
        info["labels"] = tags
        info["nontrivial"] = any(x.startswith("env:") for x in tags)
        info["sample"] = {"molecules": tags, "head": text[:240]}
        ctx.account(case, v, info)

    ctx.hypothesis_stage("heavy-atom-environments", envs(), env_body, 4000 if quick else 60000)

    names = ["1FTJ-Chain-A", "1HPX", "3SGB", "4DFR"]
    mine = [names[i] for i in ctx.my_slice(len(names))]

    def corpus_body(n):
        ents = [a for a in pdbio.atoms_of(pdbio.parse(gen.corpus_text(n))) if a.alt in (" ", "A")]
        for a in ents:
            a.alt = " "
        for opt in ([], ["--protonate-all"]):
            case = {"pdb": pdbio.write(ents), "rot": 9, "trans": [2510, -7530, 1], "optargs": opt}
            v, info = check_case(case)
            info["sample"] = {"structure": "corpus " + n, "optargs": opt}
            ctx.account(case, v, info)
        # the program's own hydrogens (ligand hydrogens on carbon included) written into the file and kept
        case = {"pdb": pdbio.write([a for a in ents if not a.is_h]), "feed_back": True, "orientation": False}
        v, info = check_case(case)
        info["sample"] = {"structure": "corpus %s without the hydrogens of the file" % n,
                          "optargs": ["--keep-protons"], "hydrogens": "own, fed back"}
        ctx.account(case, v, info)

    ctx.loop_stage("corpus-files", mine, corpus_body)
