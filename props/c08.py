"""C08 - the conformation average is the mean over the conformations that contain a group.

Oracles: (i) an atom-set model of topping-up (every conformation keeps its own atoms, gains the atoms it lacks from
conformations that have the same residue type at that position, and never holds two residue types at one position);
(ii) an independent recomputation of the mean from the per-conformation records: the average holds exactly one group
per (site, type) occurring anywhere, and its pKa, desolvation terms, buried fraction, counts and per-partner
determinant sums equal the arithmetic mean over the conformations that contain the group; (iii) corollaries: one
conformation -> the average is that conformation; k identical models -> same as the single model.
"""
import collections

from hypothesis import strategies as st

from vlib import gen, genconf, observe, pdbio, common
from vlib.pdbio import Atom

PROPERTY = "C08"
REDUCE_KEYS = ["pdb"]
LEVEL = "exploration"
RULE = ("multi-conformation inputs built from generated structures: 2-4 MODELs (jittered coordinates, point mutants, "
        "missing atoms or residues in later models, identical copies, MODEL numbers starting at 0/1/5) and "
        "alternate-location tags (letters and digits, 2-3 tags, partial alternates, whole-residue alternates, "
        "alternate-location point mutants in any tag, missing atoms in one alternate), plus single-conformation "
        "inputs. Non-trivial: >= 2 conformations that differ in some reported group's determinants, or a reported "
        "group that exists in a strict subset of the conformations; distinct by hash of the input.")
ASSUMPTIONS = [
    "the per-conformation group records are taken as ground truth for the mean (C02/C01 check them)",
    "groups that are disulfide-bridged in only some conformations are not compared (99.99 is not an additive value)",
    "open finding F5: positions that hold insertion-code twins are excluded (residue identity across conformations "
    "ignores the insertion code)",
]


def ident(atoms, key):
    a = atoms[key]
    return (a.chain, a.resnum, a.icode, a.aname)


def topup_violations(text, rec):
    """Atom-set model of topping-up, heavy atoms only."""
    entries = pdbio.parse(text)
    atoms = [a for a in pdbio.atoms_of(entries) if not a.is_h and a.resn.strip() not in gen.IGNORABLE]
    # conformation name of each file atom: model number + alt tag (blank -> A, digits -> letters)
    def cname(a):
        alt = a.alt
        if alt in "123456789":
            alt = chr(ord(alt) + 16)
        if alt == " ":
            alt = "A"
        return "%d%s" % (a.model, alt)
    own = collections.defaultdict(set)          # conf -> {(pos, atom name)}
    types = collections.defaultdict(lambda: collections.defaultdict(set))   # pos -> resname -> {(conf, atom name)}
    for a in atoms:
        pos = (a.chain.strip() or "_", a.resnum, a.icode)
        own[cname(a)].add((pos, a.aname))
        types[pos][a.resn.strip()].add((cname(a), a.aname))
    v = []
    want_names = sorted(own)
    if sorted(rec["conf_names"]) != want_names:
        v.append({"clause": "conformation-names", "detail": "conformations %r, expected %r from MODEL numbers and "
                  "alternate-location tags (blank -> A, digit n -> n-th letter)" % (rec["conf_names"], want_names)})
    for c in rec["conf_names"]:
        obs = collections.defaultdict(set)
        obs_types = collections.defaultdict(set)
        for a in rec["confs"][c]["atoms"]:
            if a["elem"] == "H":
                continue
            pos = (a["chain"], a["resnum"], a["icode"])
            obs[pos].add(a["name"])
            obs_types[pos].add(a["resname"].strip())
        for pos, names in obs_types.items():
            if len(names) > 1:
                v.append({"clause": "topup/no-type-merge", "detail": "conformation %s holds residue types %r at %r" % (
                    c, sorted(names), pos), "pos": pos})
        for pos, name in own.get(c, ()):
            if name not in obs.get(pos, ()):
                v.append({"clause": "topup/keeps-own-atoms", "detail": "conformation %s lost its own atom %s %r" % (
                    c, name, pos), "pos": pos})
        for pos, bytype in types.items():
            have = obs_types.get(pos, set())
            if len(have) != 1:
                if not have:
                    v.append({"clause": "topup/complete", "detail": "conformation %s has no atom at %r although other "
                              "conformations do" % (c, pos), "pos": pos})
                continue
            t = next(iter(have))
            want = {n for (_cn, n) in bytype.get(t, ())}
            missing = want - obs[pos]
            extra = obs[pos] - want
            if missing or extra:
                v.append({"clause": "topup/complete", "detail": "conformation %s at %r (%s): missing %r, unexpected %r"
                          % (c, pos, t, sorted(missing), sorted(extra)), "pos": pos})
    return v


def mean_violations(text, rec):
    atoms = pdbio.atoms_of(pdbio.parse(text))
    v = []
    per = collections.defaultdict(list)          # (identity, type) -> [group records]
    for c in rec["conf_names"]:
        for g in rec["confs"][c]["groups"]:
            if (g["reported"] or g["bridge"]) and g["key"] is not None:
                per[(ident(atoms, g["key"]), g["type"])].append(g)
    avr = collections.defaultdict(list)
    for g in rec["confs"]["AVR"]["groups"]:
        if g["key"] is not None:
            avr[(ident(atoms, g["key"]), g["type"])].append(g)
    subset = False
    differ = False
    for k, lst in per.items():
        if all(g["bridge"] for g in lst):
            continue                   # bridged everywhere: not reported, nothing to average
        got = avr.get(k, [])
        if len(got) != 1:
            v.append({"clause": "average/one-group-per-site", "detail": "%s %r: %d groups in the average, present in "
                      "%d conformation(s)" % (lst[0]["label"], k, len(got), len(lst)), "key": lst[0]["key"]})
            continue
        a = got[0]
        n = len(lst)
        if n < len(rec["conf_names"]):
            subset = True
        fields = ("pka", "evol", "eloc", "buried", "nvol", "nloc", "model_pka")
        if any(g["bridge"] for g in lst):
            fields = ("pka",)          # bridged in some conformations: those count with the fixed value 99.99
        for f in fields:
            mean = sum(g[f] for g in lst) / float(n)
            if abs(a[f] - mean) > 1e-9:
                v.append({"clause": "average/mean", "key": a["key"], "detail": "%s %s: average %r, mean over %d "
                          "conformations %r (%r)" % (a["label"], f, a[f], n, mean, [g[f] for g in lst])})
                break
        if len(fields) == 1:
            continue
        for t in observe.DET_TYPES:
            sums = collections.defaultdict(float)
            for g in lst:
                for pk, lab, val in g["dets"][t]:
                    pid = ident(atoms, pk) if isinstance(pk, int) else lab
                    sums[pid] += val / float(n)
            got_s = collections.defaultdict(float)
            for pk, lab, val in a["dets"][t]:
                pid = ident(atoms, pk) if isinstance(pk, int) else lab
                got_s[pid] += val
            for pid in set(sums) | set(got_s):
                if abs(sums.get(pid, 0.0) - got_s.get(pid, 0.0)) > 1e-9:
                    v.append({"clause": "average/determinant-mean", "key": a["key"],
                              "detail": "%s %s determinant towards %r: average %r, mean %r" % (
                                  a["label"], t, pid, got_s.get(pid, 0.0), sums.get(pid, 0.0))})
                    break
        if n >= 2:
            d0 = observe.det_multiset(lst[0])
            if any(observe.det_multiset(g) != d0 for g in lst[1:]):
                differ = True
    for k, lst in avr.items():
        if k not in per and any(g["reported"] for g in lst):
            v.append({"clause": "average/nothing-invented", "key": lst[0]["key"],
                      "detail": "%s in the average but reported in no conformation" % lst[0]["label"]})
    return v, subset, differ


def same_groups_violations(text, rec):
    """Alternate-location inputs (one MODEL): a residue that has the same name and the same heavy atoms in two
    conformations carries the same ionizable groups (side chain, amino and carboxyl terminus) in both: these are a
    function of the residue's atoms and of its place in the chain, which alternate locations do not change."""
    if "MODEL" in text or len(rec["conf_names"]) < 2:
        return []
    per = {}
    for c in rec["conf_names"]:
        res = collections.defaultdict(set)
        for a in rec["confs"][c]["atoms"]:
            if a["elem"] != "H":
                res[(a["chain"], a["resnum"], a["icode"], a["resname"])].add(a["name"])
        kinds = collections.defaultdict(list)
        for g in rec["confs"][c]["groups"]:
            if g["type"] in ("BBN", "BBC"):
                continue          # plain backbone groups also depend on the atoms of the neighbouring residues
            kinds[(g["chain"], g["resnum"], g["icode"], g["resname"])].append(g["type"])
        per[c] = (res, kinds)
    first = rec["conf_names"][0]
    v = []
    for c in rec["conf_names"][1:]:
        for rid, names in per[first][0].items():
            if per[c][0].get(rid) == names and sorted(per[first][1].get(rid, [])) != sorted(per[c][1].get(rid, [])):
                ka, kb = sorted(per[first][1].get(rid, [])), sorted(per[c][1].get(rid, []))
                # open finding F23: a residue that starts its chain and carries the terminal oxygen (one-residue
                # chain), listed as whole-residue alternates: only the first alternate gets the amino terminus
                only_a = [k for k in ka if k not in kb]
                only_b = [k for k in kb if k not in ka]
                f23 = "OXT" in names and sorted(only_a + only_b) == ["N+"]
                v.append({"clause": "same-residue-same-groups", "pos": (rid[0].strip() or "_", rid[1]),
                          "sig": "one-residue-chain-alternates" if f23 else None,
                          "detail": "residue %r has the same heavy atoms in %s and %s but groups %r vs %r" % (
                              rid, first, c, sorted(per[first][1].get(rid, [])), sorted(per[c][1].get(rid, [])))})
                return v
    return v


def check_case(case):
    text = case["pdb"]
    rec = observe.run(text, [], name="a", want_atoms=True)
    if rec["error"]:
        return [], {"labels": ["error:" + rec["error"]["type"]]}
    labels = ["nconf:%d" % len(rec["conf_names"])]
    v = topup_violations(text, rec)
    v += same_groups_violations(text, rec)
    mv, subset, differ = mean_violations(text, rec)
    v += mv
    if len(rec["conf_names"]) == 1:
        diffs = observe.compare_records({"error": None, "confs": {"X": rec["confs"][rec["conf_names"][0]]}},
                                        {"error": None, "confs": {"X": rec["confs"]["AVR"]}}, tol=0.0)
        diffs = [d for d in diffs if "present only in first" not in d["diffs"][0]]   # AVR holds reported groups only
        # the average merges several determinants towards one partner into their sum: compare per-partner sums
        keep = []
        only = rec["confs"][rec["conf_names"][0]]
        ia, _ = observe.index_groups(only)
        ib, _ = observe.index_groups(rec["confs"]["AVR"])
        for d in diffs:
            if all("determinants" in x for x in d["diffs"]):
                k = next((k for k in ia if k[0] == d["key"] and k in ib), None)
                if k is not None:
                    same = True
                    for t in observe.DET_TYPES:
                        sa, sb = collections.defaultdict(float), collections.defaultdict(float)
                        for pk, _l, val in ia[k]["dets"][t]:
                            sa[pk] += val
                        for pk, _l, val in ib[k]["dets"][t]:
                            sb[pk] += val
                        if set(sa) != set(sb) or any(abs(sa[x] - sb[x]) > 1e-12 for x in sa):
                            same = False
                    if same:
                        continue
            keep.append(d)
        if keep:
            v.append({"clause": "single-conformation==average", "detail": common.fmt_diffs(keep),
                      "key": keep[0]["key"], "keys": [d["key"] for d in keep]})
    if case.get("single_text"):
        # identical models: every conformation and the average equal the single-model run
        rs = observe.run(case["single_text"], [], name="a")
        if not rs["error"]:
            km = common.xyz_keymap(text, case["single_text"])
            one = {"error": None, "confs": {"X": rs["confs"]["AVR"]}}
            diffs = observe.compare_records(one, {"error": None, "confs": {"X": rec["confs"]["AVR"]}}, tol=1e-9,
                                            keymap=km)
            if diffs:
                v.append({"clause": "identical-models==single-model", "detail": common.fmt_diffs(diffs)})
    twins = bool(common.twin_atoms(pdbio.parse(text)))
    if twins:
        tw = {(a.chain.strip() or "_", a.resnum) for a in common.twin_atoms(pdbio.parse(text))}
        for x in v:
            pos = x.get("pos")
            if pos is not None and (pos[0], pos[1]) in tw:
                x["sig"] = "icode-twin"
            elif "keys" in x:
                x["sig"] = common.twin_sig(text, x["keys"])
            elif "key" in x:
                x["sig"] = common.twin_sig(text, [x["key"]])
    if subset:
        labels.append("group-in-subset")
    if differ:
        labels.append("determinants-differ")
    return v, {"labels": labels, "nontrivial": (subset or differ) and len(rec["conf_names"]) >= 2}


def replay(case):
    return check_case(case)[0]


def run_shard(ctx):
    quick = ctx.tier == "quick"

    @st.composite
    def cases(draw):
        text, info = draw(genconf.multi_conformation(max_res=18 if quick else 40))
        single = None
        if "conf:identical-models" in info["labels"]:
            s = info["structure"]
            single = pdbio.write([e for e in s.entries if isinstance(e, Atom) or e.startswith("TER")])
        return text, info, single

    def body(t):
        text, info, single = t
        case = {"pdb": text}
        if single:
            case["single_text"] = single
        v, ci = check_case(case)
        ci["labels"] = ci.get("labels", []) + [l for l in info["labels"]]
        ci["sample"] = {"structure": info["structure"].summary(), "conformations": info["labels"],
                        "head": text[:400]}
        ctx.account(case, v, ci)

    ctx.hypothesis_stage("multi-conformation", cases(), body, 2500 if quick else 36000)

    # corollary on arbitrary single-conformation structures (ligand copies whose groups share a label, ions, several
    # chains): the average reports exactly the only conformation
    def single_body(s):
        case = {"pdb": s.text}
        v, ci = check_case(case)
        ci["labels"] = ci.get("labels", []) + ["single-any-structure"] + [l for l in s.labels if l.startswith("copy:")]
        ci["nontrivial"] = any(l.startswith("lig:") for l in s.labels)
        ci["sample"] = {"structure": s.summary(), "clause": "single conformation == average"}
        ctx.account(case, v, ci)

    ctx.hypothesis_stage("single-conformation-structures", gen.structures(max_res=30 if quick else 60), single_body,
                         600 if quick else 8000)
    # two or three copies of one library ligand (same chain: their groups share a label; or one per chain)
    ctx.hypothesis_stage("single-conformation-ligand-copies", gen.structures(max_res=20 if quick else 40,
                                                                             ligand_copies=True), single_body,
                         200 if quick else 3000)

    # a cysteine whose sulfur has two alternate locations, one within and one beyond the S-S bonding distance of its
    # partner: bridged (99.99) in one conformation, titrating in the other
    @st.composite
    def half_bridged(draw):
        ents, info = draw(gen.bridged_chains(dist=(2000, 2400)))
        atoms = pdbio.atoms_of(ents)
        sgs = [a for a in atoms if a.aname == "SG"]
        if len(sgs) != 2:
            return None
        a, b = sgs
        far = b.copy()
        k = draw(st.integers(1200, 3000))
        d = [b.xyz[i] - a.xyz[i] for i in range(3)]
        nrm = sum(x * x for x in d) ** 0.5
        far.x, far.y, far.z = (b.x + int(d[0] * k / nrm), b.y + int(d[1] * k / nrm), b.z + int(d[2] * k / nrm))
        b.alt, far.alt = "A", "B"
        out = []
        for e in ents:
            out.append(e)
            if e is b:
                out.append(far)
        pdbio.renumber_serials(out)
        return pdbio.write(out), info

    def hb_body(t):
        if t is None:
            return
        text, info = t
        case = {"pdb": text}
        v, ci = check_case(case)
        ci["labels"] = ci.get("labels", []) + ["half-bridged-cysteine"]
        ci["nontrivial"] = True
        ci["sample"] = {"structure": "two chains joined by an S-S contact; the second sulfur has a second alternate "
                        "location beyond bonding distance", **info}
        ctx.account(case, v, ci)

    ctx.hypothesis_stage("half-bridged-cysteine", half_bridged(), hb_body, 200 if quick else 3000)

    names = ["conf-alt-AB-mutant", "conf-alt-AB", "conf-alt-BC", "conf-model-missing-atoms", "conf-model-mutant",
             "4DFR"]
    mine = [names[i] for i in ctx.my_slice(len(names))]

    def corpus_body(n):
        case = {"pdb": gen.corpus_text(n)}
        v, ci = check_case(case)
        ci["sample"] = {"structure": "corpus " + n}
        ctx.account(case, v, ci)

    ctx.loop_stage("corpus-conformer-files", mine, corpus_body)
