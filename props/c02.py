"""C02 - reported pKa equals model pKa plus the contributions listed for it; the .pka file renders the same numbers.

Oracles: (a) arithmetic identity pKa == model + desolvation(2) + sum of all determinants for every group of every
conformation and of the average (bridged cysteines: exactly 99.99); (b) fixed-column parse of the written .pka
against the API record: table pKa == summary pKa == a correct rounding of the API value, desolvation columns and
counts match, row k of column t is exactly the k-th determinant of type t, padding elsewhere, no extra or missing
rows or groups.
"""
import os

from hypothesis import strategies as st

from vlib import gen, genconf, observe, pdbio, common, census, pkaparse
from vlib.pdbio import Atom
from props import c13, c14

PROPERTY = "C02"
REDUCE_KEYS = ["pdb"]
LEVEL = "exploration"
RULE = ("structures biased towards many determinants (balls and segments of the reference proteins with threaded "
        "ionizable residues, ligands incl. covalently coupled acid pairs, ions, multi-conformation inputs) x options "
        "{none, -i, -c, -d} x parameter-file variants (remove_penalised_group, shared_determinants, "
        "common_charge_centre in {0,1}, passed with -p); for multi-conformation inputs one file per conformation "
        "(propka.output.write_pka) is checked as well. Non-trivial: some group has >= 2 determinants of one type, "
        "or the case exercises penalisation / sharing / -d, or the average spans >= 2 conformations; distinct by hash "
        "of (input, options, parameter variant).")
ASSUMPTIONS = [
    "printed values must be *a* correct rounding (|printed - value| <= half a unit in the last place + 1e-9); integer "
    "columns (buried %, atom counts) are truncated by the program, so |printed - value| < 1 is required",
    "open finding F5 (insertion-code twins share a label) excluded by signature",
]

_CFG_CACHE = {}


def variant_cfg(flags):
    """Write a copy of the shipped parameter file with three scalar lines rewritten; return its path."""
    key = tuple(sorted(flags.items()))
    path = os.path.abspath("variant_%s.cfg" % "_".join("%s%d" % (k[:6], v) for k, v in key))
    if not os.path.exists(path):
        src = os.path.join(os.environ.get("VERIF_REPO", "/repo"), "propka", "propka.cfg")
        out = []
        for line in open(src):
            w = line.split()
            if w and w[0] in flags:
                out.append("%s %d\n" % (w[0], flags[w[0]]))
            else:
                out.append(line)
        with open(path, "w") as fh:
            fh.writelines(out)
    return path


def identity_violations(rec):
    v = []
    # a cysteine that is bridged in some conformations only enters the average with 99.99 for those: excepted like
    # every bridged cysteine
    bridged_somewhere = {g["label"] for c, conf in rec["confs"].items() if c != "AVR" for g in conf["groups"]
                         if g["bridge"]}
    for c, conf in rec["confs"].items():
        for g in conf["groups"]:
            if c == "AVR" and g["type"] == "CYS" and g["label"] in bridged_somewhere:
                continue
            total = g["model_pka"] + g["evol"] + g["eloc"]
            for t in observe.DET_TYPES:
                for _k, _l, val in g["dets"][t]:
                    total += val
            if g["bridge"]:
                if c != "AVR" and g["pka"] != 99.99:
                    v.append({"clause": "bridged==99.99", "detail": "%s[%s] pKa %r" % (g["label"], c, g["pka"])})
                continue
            if abs(total - g["pka"]) > 1e-9:
                v.append({"clause": "sum-identity", "key": g["key"],
                          "detail": "%s[%s]: pKa %r but model %r + desolvation %r %r + determinants = %r" % (
                              g["label"], c, g["pka"], g["model_pka"], g["evol"], g["eloc"], total)})
    return v


def _differing_labels(exp_l, got_l):
    """Labels whose multiplicity differs between the two lists; for a pure re-ordering, the labels that are out of
    place."""
    import collections
    a, b = collections.Counter(x.strip() for x in exp_l), collections.Counter(x.strip() for x in got_l)
    out = sorted(k for k in set(a) | set(b) if a[k] != b[k])
    if not out:
        out = sorted({x.strip() for x, y in zip(exp_l, got_l) if x.strip() != y.strip()} |
                     {y.strip() for x, y in zip(exp_l, got_l) if x.strip() != y.strip()})
    return out


def file_violations(rec, remove_penalised, write_out_order):
    parsed = pkaparse.parse(rec["pka_text"])
    v = []
    if parsed["errors"]:
        return [{"clause": "file-parse", "detail": parsed["errors"][0]}], {}
    avr = rec["confs"]["AVR"]
    expected = []
    for chain in avr["chains"]:
        for rtype in write_out_order:
            for g in avr["groups"]:
                if g["chain"] == chain and g["rtype"] == rtype:
                    if g["ctg"] is not None and remove_penalised:
                        continue
                    expected.append(g)
    # every group the API reports is written, whatever the order list of the parameter file says
    ids = {id(g) for g in expected}
    unwritten = [g for g in avr["groups"] if g["reported"] and id(g) not in ids
                 and not (g["ctg"] is not None and remove_penalised)]
    if unwritten:
        return [{"clause": "reported-group-written", "key": unwritten[0]["key"],
                 "detail": "%s (residue type %s) is reported by the API but its type is not written out" % (
                     unwritten[0]["label"], unwritten[0]["rtype"])}], {}
    got = parsed["det_groups"]
    if [g["label"] for g in expected] != [d["label"] for d in got]:
        exp_l, got_l = [g["label"] for g in expected], [d["label"] for d in got]
        first = next((i for i, (a, b) in enumerate(zip(exp_l, got_l)) if a != b), min(len(exp_l), len(got_l)))
        return [{"clause": "table-groups", "labels": _differing_labels(exp_l, got_l),
                 "detail": "determinant table lists %d groups, record %d; first difference at "
                 "%d: %r vs %r" % (len(got_l), len(exp_l), first, got_l[first:first + 2], exp_l[first:first + 2])}], {}
    multi = False
    for g, d in zip(expected, got):
        def bad(msg):
            v.append({"clause": "table-row", "key": g["key"], "detail": "%s: %s" % (g["label"], msg)})
        if not pkaparse.is_rounding_of(d["pka"], g["pka"], 2):
            bad("table pKa %s vs %r" % (d["pka"], g["pka"]))
        if not pkaparse.is_rounding_of(d["evol"], g["evol"], 2) or not pkaparse.is_rounding_of(d["eloc"], g["eloc"], 2):
            bad("desolvation columns %s %s vs %r %r" % (d["evol"], d["eloc"], g["evol"], g["eloc"]))
        if abs(d["buried"] - 100.0 * g["buried"]) >= 1 + 1e-9 or abs(d["nvol"] - g["nvol"]) >= 1 + 1e-9 or \
                abs(d["nloc"] - g["nloc"]) >= 1 + 1e-9:
            bad("buried/count columns %r %r %r vs %r %r %r" % (d["buried"], d["nvol"], d["nloc"], 100 * g["buried"],
                                                               g["nvol"], g["nloc"]))
        if d["star"] != bool(g["noncov"]):
            bad("star %r but coupled partners %r" % (d["star"], g["noncov"]))
        nrows = max(1, max(len(g["dets"][t]) for t in observe.DET_TYPES))
        if len(d["rows"]) != nrows:
            bad("%d rows printed, %d expected" % (len(d["rows"]), nrows))
            continue
        if nrows > 1:
            multi = True
        for ti, t in enumerate(observe.DET_TYPES):
            for k in range(nrows):
                cell = d["rows"][k][ti]
                if k < len(g["dets"][t]):
                    _pk, lab, val = g["dets"][t][k]
                    if cell is None or cell[1] != lab or not pkaparse.is_rounding_of(cell[0], val, 2):
                        bad("%s row %d: printed %r, determinant (%r, %r)" % (t, k, cell, val, lab))
                elif cell is not None:
                    bad("%s row %d: printed %r where padding is expected" % (t, k, cell))
    # summary: same groups (all chains), pKa agrees with the table and the API
    exp_sum = []
    for rtype in write_out_order:
        for g in avr["groups"]:
            if g["rtype"] == rtype and not (g["ctg"] is not None and remove_penalised):
                exp_sum.append(g)
    if [g["label"].rjust(9) for g in exp_sum] != [r["label"] for r in parsed["summary"]]:
        v.append({"clause": "summary-groups",
                  "labels": _differing_labels([g["label"].rjust(9) for g in exp_sum],
                                              [r["label"] for r in parsed["summary"]]),
                  "detail": "summary lists %r..., record %r..." % (
            [r["label"] for r in parsed["summary"]][:5], [g["label"] for g in exp_sum][:5])})
    else:
        table_pka = {}
        for g, d in zip(expected, got):
            table_pka.setdefault(g["label"], []).append(d["pka"])
        for g, r in zip(exp_sum, parsed["summary"]):
            if not pkaparse.is_rounding_of(r["pka"], g["pka"], 2) or \
                    not pkaparse.is_rounding_of(r["model_pka"], g["model_pka"], 2):
                v.append({"clause": "summary-row", "key": g["key"],
                          "detail": "%s: summary %s/%s vs %r/%r" % (g["label"], r["pka"], r["model_pka"], g["pka"],
                                                                    g["model_pka"])})
            elif g["label"] in table_pka and r["pka"] not in table_pka[g["label"]]:
                v.append({"clause": "summary==table", "key": g["key"], "detail": "%s: summary %s, table %r" % (
                    g["label"], r["pka"], table_pka[g["label"]])})
            if (g["ctg"] is not None) != ("Discarded due to coupling" in r["rest"]):
                v.append({"clause": "summary-penalty-note", "key": g["key"], "detail": "%s: %r" % (g["label"], r["rest"])})
    return v, {"multi_row": multi}


def check_case(case):
    text, opt = case["pdb"], list(case.get("optargs", []))
    flags = case.get("flags") or {}
    remove_penalised = flags.get("remove_penalised_group", 1)
    if flags:
        opt += ["-p", variant_cfg(flags)]
    rec = observe.run(text, opt, name="a", keep_mol=bool(case.get("per_conformation")))
    if rec["error"]:
        return [], {"labels": ["error:" + rec["error"]["type"]]}
    mol = rec.pop("_mol", None)
    labels = []
    v = identity_violations(rec)
    info = {}
    if rec["pka_text"] is not None:
        cfg = census.read_cfg()
        fv, info = file_violations(rec, remove_penalised, cfg["write_out_order"])
        v += fv
        if mol is not None and len(rec["conf_names"]) >= 2 and not v:
            # one file per conformation (propka.output.write_pka): table and summary of the conformation written
            import propka.output
            for cname in rec["conf_names"]:
                fn = "c02_%s.pka" % cname
                propka.output.write_pka(mol, mol.version.parameters, filename=fn, conformation=cname, verbose=False)
                txt = open(fn).read()
                os.remove(fn)
                sub = {"pka_text": txt.split("\n", 1)[1], "confs": {"AVR": rec["confs"][cname]}}
                fv, _i = file_violations(sub, remove_penalised, cfg["write_out_order"])
                for x in fv:
                    x["detail"] = "file written for conformation %s: %s" % (cname, x["detail"])
                v += fv
                if fv:
                    break
            labels.append("file-per-conformation")
    # open finding F5: groups of residues that share chain+number and differ in insertion code share a label; the
    # average, the table and the summary address groups by label.  Only violations that concern such groups carry the
    # signature.
    entries = pdbio.parse(text)
    tw = common.twin_atoms(entries)
    if tw and v:
        twin_res = {(a.chain.strip() or "_", a.resnum) for a in tw}
        twin_labels = {g["label"].strip() for c in rec["confs"].values() for g in c["groups"]
                       if not g["hetatm"] and (g["chain"].strip() or "_", g["resnum"]) in twin_res}
        by_key = {}
        for c in rec["confs"].values():
            for g in c["groups"]:
                by_key.setdefault(g["key"], g)
        for x in v:
            if x["clause"] not in ("table-groups", "summary-groups", "table-row", "summary-row", "summary==table",
                                   "sum-identity", "bridged==99.99"):
                continue
            if "labels" in x:
                if x["labels"] and all(l in twin_labels for l in x["labels"]):
                    x["sig"] = "icode-twin"
            elif x.get("key") in by_key:
                g = by_key[x["key"]]
                if x["clause"] in ("sum-identity", "bridged==99.99") and "[AVR]" not in x["detail"]:
                    continue          # within one conformation the arithmetic has nothing to do with labels
                if g["label"].strip() in twin_labels:
                    x["sig"] = "icode-twin"
    penalised = any(g["ctg"] is not None for c in rec["confs"].values() for g in c["groups"])
    many = any(len(g["dets"][t]) >= 2 for c in rec["confs"].values() for g in c["groups"] for t in observe.DET_TYPES)
    if penalised:
        labels.append("penalised")
    if len(rec["conf_names"]) >= 2:
        labels.append("avr>=2conf")
    if info.get("multi_row"):
        labels.append("multi-row")
    if any(g["noncov"] for c in rec["confs"].values() for g in c["groups"]):
        labels.append("coupled")
    nontrivial = many or penalised or len(rec["conf_names"]) >= 2 or "-d" in opt or bool(flags)
    return v, {"labels": labels, "nontrivial": nontrivial}


def replay(case):
    return check_case(case)[0]


def run_shard(ctx):
    quick = ctx.tier == "quick"

    @st.composite
    def cases(draw):
        kind = draw(st.sampled_from(["single", "single", "single", "multi"]))
        if kind == "multi":
            text, info = draw(genconf.multi_conformation(max_res=20 if quick else 40, allow_hetero=True))
            s = info["structure"]
            labels = info["labels"]
        else:
            s = draw(gen.structures(max_res=40 if quick else 80, max_atoms=1600))
            text, labels = s.text, []
        mode = draw(st.sampled_from(["none", "none", "-d", "-d", "chains", "titrate"]))
        opt = []
        entries = pdbio.parse(text)
        if mode == "-d":
            opt = ["-d"]
        elif mode == "chains":
            ids = c13.chain_ids(entries)
            k = draw(st.integers(1, len(ids)))
            for c in draw(st.permutations(ids))[:k]:
                opt += ["-c", c]
        elif mode == "titrate" and not any(a.chain == " " for a in pdbio.atoms_of(entries)):
            ids = c14.residue_ids(entries)
            opt = ["-i", c14.render([r for r in ids if draw(st.booleans())] or ids[:1])]
        flags = {}
        if draw(st.integers(0, 2)) == 0:
            flags = {"remove_penalised_group": draw(st.integers(0, 1)), "shared_determinants": draw(st.integers(0, 1)),
                     "common_charge_centre": draw(st.integers(0, 1))}
        return s, text, opt, flags, labels

    def body(t):
        s, text, opt, flags, labels = t
        case = {"pdb": text, "optargs": opt, "flags": flags, "per_conformation": True}
        v, info = check_case(case)
        info["labels"] = info.get("labels", []) + [l for l in labels if l.startswith("conf:")] + \
            (["opt:" + opt[0]] if opt else []) + (["cfg-variant"] if flags else [])
        info["sample"] = {"structure": s.summary(), "optargs": [o[:80] for o in opt], "parameter_flags": flags}
        ctx.account(case, v, info)

    ctx.hypothesis_stage("identity-and-file", cases(), body, 2400 if quick else 36000)

    # the corpus files (many determinants, real coupling, real ligands) under every option / flag combination
    names = ["1FTJ-Chain-A", "1HPX", "3SGB", "4DFR", "sample-issue-140", "conf-alt-AB-mutant", "conf-model-mutant"]
    combos = []
    for n in names:
        for opt in ([], ["-d"]):
            for flags in ({}, {"remove_penalised_group": 0, "shared_determinants": 1, "common_charge_centre": 1},
                          {"remove_penalised_group": 1, "shared_determinants": 1, "common_charge_centre": 0}):
                combos.append((n, opt, flags))
    mine = [combos[i] for i in ctx.my_slice(len(combos))]

    def corpus_body(t):
        n, opt, flags = t
        case = {"pdb": gen.corpus_text(n), "optargs": opt, "flags": flags, "per_conformation": True}
        v, info = check_case(case)
        info["sample"] = {"structure": "corpus " + n, "optargs": opt, "parameter_flags": flags}
        ctx.account(case, v, info)

    ctx.loop_stage("corpus-files", mine, corpus_body)

    if ctx.shard == 0:
        import json
        w = json.load(open(os.path.join(os.path.dirname(os.path.dirname(os.path.abspath(__file__))), "witnesses",
                                        "F22_conformation_file_omits_chain.json")))["case"]

        def wit(c):
            v, info = check_case(c)
            info["sample"] = {"structure": "witness of fixed finding F22 (chain known to a conformation only by topping-up)"}
            ctx.account(c, v, info)
        ctx.loop_stage("F22-regression", [w], wit)
