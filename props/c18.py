"""C18 - parameter tables are symmetric, complete and self-consistent.

Part 1 (any parameter file): files from a grammar are fed to Parameters.parse_line line by line; after every line
the look-ups are compared with an independent dictionary model of the file (which implies symmetry, default
fall-back whatever the line order, last definition wins) and each squared cut-off must equal the square of the
plain one.  Part 2 (shipped file, exhaustive): every pair of group types the program can create has an interaction
entry in {I, N, -}; every model-pKa type is written out and has a non-zero charge; inner cut-offs < outer ones.
"""
import inspect
import io
import itertools
import os
import re

from hypothesis import strategies as st

PROPERTY = "C18"
LEVEL = "exploration"
RULE = ("part 1: parameter files from a grammar - interaction_matrix with 2-14 invented type names (triangular rows, "
        "entries I / N / - / numbers), sidechain_cutoffs pair lines in any order with repeated pairs and the default "
        "line before, between, after them or absent, scalar cut-offs assigned through the plain and the _squared "
        "names in any sequence, comments, blank lines, tabs; look-ups for all ordered pairs incl. unknown names after "
        "every line, through parse_line and through read_parameter_file. Non-trivial: >= 3 matrix rows and >= 1 pair "
        "line whose reverse is queried; distinct by hash of the file. Part 2: the shipped propka.cfg, all pairs of "
        "creatable group types (exhaustive).")
ASSUMPTIONS = [
    "the set of creatable side-chain / ligand group types is derived from the code: values of protein_group_mapping, "
    "N+, COO and every group class named in is_ligand_group_by_groups (source introspection); BBN/BBC/ION are "
    "parameterised by their own tables and are excluded",
    "matrix rows that no creatable type can reach (SER) are reported in the evidence, not as violations: the "
    "statement does not forbid them",
]

NAMES = ["AAA", "BB", "C1", "N+", "C-", "Cl", "CL", "X", "YY2", "Q9", "HIS", "COO", "zz", "O3", "T_1", "W-"]
SQUARED = ["desolv_cutoff", "buried_cutoff", "coulomb_cutoff1", "coulomb_cutoff2"]


def fmt_num(x):
    return repr(float(x))


@st.composite
def files(draw):
    """Returns list of (line, update) where update is applied to the reference model."""
    lines = []
    n = draw(st.integers(2, 14))
    names = draw(st.permutations(NAMES))[:n]
    rows = []
    for i, name in enumerate(names):
        cells = [draw(st.sampled_from(["I", "N", "-", "N", "1", "0.5", "2"])) for _ in range(i + 1)]
        rows.append(("matrix", name, cells))
    pairs = []
    for _ in range(draw(st.integers(0, 12))):
        a = draw(st.sampled_from(names + ["UNK"]))
        b = draw(st.sampled_from(names + ["UNK"]))
        lo = draw(st.integers(0, 60)) / 10.0
        hi = lo + draw(st.integers(0, 30)) / 10.0
        pairs.append(("pair", a, b, lo, hi))
    ndef = draw(st.sampled_from([0, 1, 1, 2]))
    defaults = [("default", draw(st.integers(0, 50)) / 10.0, draw(st.integers(50, 90)) / 10.0) for _ in range(ndef)]
    scalars = []
    for _ in range(draw(st.integers(0, 8))):
        name = draw(st.sampled_from(SQUARED))
        sq = draw(st.booleans())
        val = draw(st.sampled_from([4.0, 10.0, 20.0, 15.0, 2.5, 0.0, 7.25, 100.0, 1e-3, 400.0, 225.0]))
        scalars.append(("scalar", name, sq, val))
    junk = [("junk", draw(st.sampled_from(["", "# comment", "   ", "\t# tabbed comment", "#interaction_matrix A I"])))
            for _ in range(draw(st.integers(0, 4)))]
    # matrix rows must stay in order; everything else is interleaved freely
    others = pairs + defaults + scalars + junk
    others = list(draw(st.permutations(others)))
    seq = []
    ri = 0
    while ri < len(rows) or others:
        take_row = ri < len(rows) and (not others or draw(st.booleans()))
        if take_row:
            seq.append(rows[ri])
            ri += 1
        else:
            seq.append(others.pop())
    sep = draw(st.sampled_from([" ", "  ", "\t"]))
    trailing = draw(st.sampled_from(["", "", " # trailing comment", "#no space"]))
    out = []
    for item in seq:
        if item[0] == "matrix":
            line = sep.join(["interaction_matrix", item[1]] + item[2]) + trailing
        elif item[0] == "pair":
            line = sep.join(["sidechain_cutoffs", item[1], item[2], fmt_num(item[3]), fmt_num(item[4])]) + trailing
        elif item[0] == "default":
            line = sep.join(["sidechain_cutoffs", "default", fmt_num(item[1]), fmt_num(item[2])])
        elif item[0] == "scalar":
            line = sep.join([item[1] + ("_squared" if item[2] else ""), fmt_num(item[3])])
        else:
            line = item[1]
        out.append((line, item))
    return out, names


class Model:
    """Reference: plain dictionaries updated per line."""

    def __init__(self):
        self.matrix = {}
        self.order = []
        self.pairs = {}
        self.default = (0.0, 0.0)
        self.plain = {"desolv_cutoff": 20.0, "buried_cutoff": 15.0, "coulomb_cutoff1": 4.0, "coulomb_cutoff2": 10.0}

    def apply(self, item):
        if item[0] == "matrix":
            self.order.append(item[1])
            for other, cell in zip(self.order, item[2]):
                try:
                    val = float(cell)
                except ValueError:
                    val = cell
                self.matrix[(other, item[1])] = val
                self.matrix[(item[1], other)] = val
        elif item[0] == "pair":
            self.pairs[(item[1], item[2])] = (item[3], item[4])
            self.pairs[(item[2], item[1])] = (item[3], item[4])
        elif item[0] == "default":
            self.default = (item[1], item[2])
        elif item[0] == "scalar":
            self.plain[item[1]] = item[3] ** 0.5 if item[2] else item[3]


def compare(params, model, names, where):
    v = []
    allnames = list(names) + ["UNK", "nope"]
    for a in allnames:
        for b in allnames:
            got = params.interaction_matrix.get_value(a, b)
            want = model.matrix.get((a, b))
            if got != want or type(got) is not type(want):
                v.append({"clause": "interaction-matrix-lookup", "detail": "%s: get_value(%r, %r) = %r, file says %r; "
                          "reverse gives %r" % (where, a, b, got, want, params.interaction_matrix.get_value(b, a))})
                return v
            got = tuple(params.sidechain_cutoffs.get_value(a, b))
            want = model.pairs.get((a, b), model.default)
            if got != tuple(want):
                v.append({"clause": "cutoff-lookup", "detail": "%s: sidechain_cutoffs.get_value(%r, %r) = %r, file says "
                          "%r (default %r); reverse gives %r" % (where, a, b, got, want, model.default,
                                                                tuple(params.sidechain_cutoffs.get_value(b, a)))})
                return v
    for name in SQUARED:
        plain = getattr(params, name)
        sq = getattr(params, name + "_squared")
        if abs(plain - model.plain[name]) > 1e-12 * max(1.0, abs(plain)):
            v.append({"clause": "scalar-cutoff", "detail": "%s: %s = %r, file says %r" % (where, name, plain,
                                                                                       model.plain[name])})
        if abs(sq - plain ** 2) > 1e-12 * max(1.0, abs(sq)):
            v.append({"clause": "squared==plain^2", "detail": "%s: %s_squared = %r but %s = %r" % (
                where, name, sq, name, plain)})
    return v


def check_case(case):
    from propka.parameters import Parameters
    from propka.input import read_parameter_file
    seq = [(l, tuple(it) if not isinstance(it, tuple) else it) for l, it in case["lines"]]
    names = case["names"]
    v = []
    params = Parameters()
    model = Model()
    try:
        # reading the derived values before anything is set must not freeze them
        [getattr(params, n + "_squared") for n in SQUARED]
        for i, (line, item) in enumerate(seq):
            params.parse_line(line + ("\n" if i % 3 else ""))      # every third line unterminated
            item = list(item)
            if item[0] == "matrix":
                item[2] = list(item[2])
            model.apply(item)
            v = compare(params, model, names, "after line %d %r" % (i, line))
            if v:
                return v, {}
        # the same text through the file reader
        if len(seq) % 3 == 0:
            os.makedirs("c18_dir", exist_ok=True)
            path = os.path.abspath(os.path.join("c18_dir", "propka.cfg"))     # same base name as the shipped file
        else:
            path = os.path.abspath("c18_case.cfg")
        with open(path, "w") as fh:
            fh.write("\n".join(l for l, _ in seq) + ("\n" if len(seq) % 2 else ""))   # last line with / without newline
        p2 = read_parameter_file(path, Parameters())
        v = compare(p2, model, names, "read_parameter_file")
    except Exception as e:
        v = [{"clause": "no-exception", "detail": "%s: %s" % (type(e).__name__, e)}]
    nrows = sum(1 for _l, it in seq if it[0] == "matrix")
    npairs = sum(1 for _l, it in seq if it[0] == "pair")
    return v, {"nontrivial": nrows >= 3 and npairs >= 1, "labels": ["rows:%d" % min(nrows, 14)]}


def creatable_types(parameters):
    import propka.group as G
    from propka.atom import Atom
    types = set(parameters.protein_group_mapping.values()) | {"N+", "COO"}
    src = inspect.getsource(G.is_ligand_group_by_groups)
    for cls_name in re.findall(r"return (\w+Group)\(atom\)", src):
        g = getattr(G, cls_name)(Atom())
        types.add(g.type)
    return types


def shipped_violations():
    from propka.parameters import Parameters
    from propka.input import read_parameter_file
    p = read_parameter_file("propka.cfg", Parameters())
    T = sorted(creatable_types(p))
    v = []
    n = 0
    for a, b in itertools.product(T, T):
        n += 1
        val = p.interaction_matrix.get_value(a, b)
        if val not in ("I", "N", "-"):
            v.append({"clause": "shipped/matrix-complete", "detail": "no interaction type for (%s, %s): %r" % (a, b, val)})
        if val != p.interaction_matrix.get_value(b, a):
            v.append({"clause": "shipped/matrix-symmetric", "detail": "(%s, %s)" % (a, b)})
        c = p.sidechain_cutoffs.get_value(a, b)
        if not c[0] < c[1]:
            v.append({"clause": "shipped/inner<outer", "detail": "sidechain cut-offs (%s, %s) = %r" % (a, b, c)})
        if tuple(c) != tuple(p.sidechain_cutoffs.get_value(b, a)):
            v.append({"clause": "shipped/cutoffs-symmetric", "detail": "(%s, %s)" % (a, b)})
    restype_to_type = {"C-": "COO", "N+": "N+"}
    for key, t in p.protein_group_mapping.items():
        restype_to_type.setdefault(key.split("-")[0], t)
    for rt in p.model_pkas:
        if rt not in p.write_out_order:
            v.append({"clause": "shipped/model-pka-written-out", "detail": "%s has a model pKa but is not in "
                      "write_out_order" % rt})
        t = restype_to_type.get(rt, rt)
        if not p.charge.get(t):
            v.append({"clause": "shipped/non-zero-charge", "detail": "%s (group type %s) has charge %r" % (
                rt, t, p.charge.get(t))})
    for rt in p.write_out_order:
        creatable_rt = rt in restype_to_type or rt in T
        if creatable_rt and rt not in p.model_pkas and rt != "SER":
            v.append({"clause": "shipped/written-out-has-model-pka", "detail": "%s is written out without model pKa" % rt})
    if not p.sidechain_cutoffs.default[0] < p.sidechain_cutoffs.default[1]:
        v.append({"clause": "shipped/inner<outer", "detail": "default %r" % (p.sidechain_cutoffs.default,)})
    for name, table in (("backbone_NH_hydrogen_bond", p.backbone_NH_hydrogen_bond),
                        ("backbone_CO_hydrogen_bond", p.backbone_CO_hydrogen_bond)):
        for k, vals in table.items():
            if len(vals) != 3 or not vals[1] < vals[2]:
                v.append({"clause": "shipped/inner<outer", "detail": "%s %s %r" % (name, k, vals)})
    if not p.coulomb_cutoff1 < p.coulomb_cutoff2:
        v.append({"clause": "shipped/inner<outer", "detail": "coulomb cut-offs"})
    for name in SQUARED:
        if abs(getattr(p, name + "_squared") - getattr(p, name) ** 2) > 1e-9:
            v.append({"clause": "squared==plain^2", "detail": name})
    unreachable = [r for r in p.interaction_matrix.ordered_keys if r not in T]
    return v, n, T, unreachable


def replay(case):
    if case.get("kind") == "shipped":
        return shipped_violations()[0]
    return check_case(case)[0]


def run_shard(ctx):
    quick = ctx.tier == "quick"

    def body(t):
        seq, names = t
        case = {"lines": [[l, list(it)] for l, it in seq], "names": list(names)}
        v, info = check_case(case)
        info["sample"] = {"file": [l for l, _ in seq][:14]}
        ctx.account(case, v, info)

    ctx.hypothesis_stage("generated-parameter-files", files(), body, 12000 if quick else 150000)

    if ctx.shard == 0:
        def shipped(_):
            v, n, T, unreachable = shipped_violations()
            ctx.notes["creatable_group_types"] = T
            ctx.notes["matrix_rows_not_reachable_from_creatable_types"] = unreachable
            ctx.count(n - 1, nontrivial=n - 1, labels=["shipped-pair"])
            ctx.account({"kind": "shipped"}, v, {"nontrivial": True, "labels": ["shipped-pair"],
                                                "sample": {"shipped propka.cfg": "all %d ordered pairs of %d creatable "
                                                           "group types" % (n, len(T))}}, hashed=False)
        ctx.loop_stage("shipped-file-exhaustive", [0], shipped, exhaustive=True)
