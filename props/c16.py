"""C16 - every contribution has the physically required sign and stays in model bounds.

Oracle: sign and bound predicates taken from the statement, evaluated on every titratable group of every
conformation; bounds are read from the parameter object of the run (constants 244.12 and the buried dielectric 30
from the statement); the two Coulomb determinants of an acid-base pair of reported protein side chains must be
equal and opposite.  Unit stage: ranges and monotonicity of the elementary energy functions.
"""
import math
import os

from hypothesis import strategies as st

from vlib import gen, observe, pdbio, common

PROPERTY = "C16"
REDUCE_KEYS = ["pdb"]
LEVEL = "exploration"
RULE = ("structure stage: whole reference proteins with threaded clusters (acid-acid, base-base, his-his, cys-cys, "
        "cys-his, acid-base, tyr-any pairs and triples around buried positions; library ions and ligands placed next "
        "to the cluster) and corpus-derived segments/balls with every library ligand type and ion name, x parameter "
        "files with desolvationAllowance in {0, 0.1, 0.4}; unit stage: coulomb_energy, hydrogen_bond_energy, "
        "calculate_weight, calculate_pair_weight, calculate_scale_factor on drawn arguments. Non-trivial: the case "
        "contains a Coulomb determinant between like-charged groups, an ion determinant, a ligand-group determinant "
        "or an exception-value side-chain determinant (classes absent from most reference files); distinct by hash.")
ASSUMPTIONS = [
    "which group types are acids (COO, CYS, TYR, SER, OCO, OP, SH) and bases (HIS, LYS, ARG, N+, CG, C2N, N30-N33, NAR) "
    "is taken from the method's publications, not from the charge table of the parameter file",
    "default options and parameter files that change desolvationAllowance / remove_penalised_group / "
    "common_charge_centre / shared_determinants; with shared_determinants only the magnitude bounds are asserted: "
    "that option copies determinants between covalently coupled groups regardless of their charge (the coupled-residue display mode re-orders interactions on "
    "purpose and is not included)",
    "side-chain bound: 2 x sidechain_interaction, except pairs of the types that have a configured exception value "
    "(CYS-CYS, COO-HIS, OCO-HIS, CYS-HIS), which may take that value; maxima are read from the parameters the run used",
]
# which group types are acids and which are bases (Olsson et al. 2011, Sondergaard et al. 2011): independent of the
# charge table of the parameter file, which the sign clauses would otherwise follow blindly
ACID_TYPES = {"COO", "CYS", "TYR", "SER", "OCO", "OP", "SH"}
BASE_TYPES = {"HIS", "LYS", "ARG", "N+", "CG", "C2N", "N30", "N31", "N32", "N33", "NAR"}
COULOMB_SCALING = 244.12
DIEL_BURIED = 30.0


def allowance_cfg(val):
    path = os.path.abspath("allowance_%s.cfg" % str(val).replace(".", "_"))
    if not os.path.exists(path):
        src = os.path.join(os.environ.get("VERIF_REPO", "/repo"), "propka", "propka.cfg")
        out = []
        for line in open(src):
            w = line.split()
            if w and w[0] == "desolvationAllowance":
                out.append("desolvationAllowance %s\n" % val)
            else:
                out.append(line)
        open(path, "w").writelines(out)
    return path


def sign(x):
    return (x > 0) - (x < 0)


def check_case(case):
    text = case["pdb"]
    opt = []
    if case.get("allowance"):
        opt = ["-p", allowance_cfg(case["allowance"])]
    elif case.get("flags"):
        from props import c02
        opt = ["-p", c02.variant_cfg(case["flags"])]
    elif case.get("cfgspec"):
        from vlib import cfgs
        opt = cfgs.options(case["cfgspec"])
    rec = observe.run(text, opt, name="a", keep_mol=True)
    if rec["error"]:
        return [], {"labels": ["error:" + rec["error"]["type"]]}
    mol = rec.pop("_mol")
    p = mol.version.parameters
    hb_max = float(p.sidechain_interaction)
    bb_max = max([abs(v[0]) for v in p.backbone_NH_hydrogen_bond.values()] +
                 [abs(v[0]) for v in p.backbone_CO_hydrogen_bond.values()])
    coul_max = COULOMB_SCALING / (DIEL_BURIED * p.coulomb_cutoff1)
    eps = 1e-9
    v = []
    classes = set()
    bounds_only = bool((case.get("flags") or {}).get("shared_determinants"))
    for c in rec["conf_names"]:
        groups = rec["confs"][c]["groups"]
        by_key = {}
        for g in groups:
            if g["type"] not in ("BBN", "BBC"):
                by_key.setdefault(g["key"], g)
        for g in groups:
            if not g["titratable"]:
                continue
            q = sign(g["charge"])
            kind = -1 if g["type"] in ACID_TYPES else 1 if g["type"] in BASE_TYPES else 0
            if kind and q and q != kind:
                v.append({"clause": "acid-or-base", "detail": "%s of type %s (an %s) carries charge %r" % (
                    g["label"], g["type"], "acid" if kind < 0 else "base", g["charge"])})
                continue
            if q == 0:
                v.append({"clause": "titratable-has-charge", "detail": "%s charge %r" % (g["label"], g["charge"])})
                continue

            def bad(clause, msg):
                v.append({"clause": clause, "detail": "%s[%s]: %s" % (g["label"], c, msg)})
            if g["evol"] * q > eps:
                bad("desolvation-sign", "charge %+d, regular desolvation %r" % (q, g["evol"]))
            if g["eloc"] * q > eps:
                bad("desolvation-sign", "charge %+d, local desolvation %r" % (q, g["eloc"]))
            if not -eps <= g["buried"] <= 1 + eps:
                bad("buried-fraction", "%r" % g["buried"])
            for pk, lab, val in g["dets"]["backbone"]:
                if val * q < -eps:
                    bad("backbone-sign", "charge %+d, backbone determinant %r from %s" % (q, val, lab))
                if abs(val) > bb_max + eps:
                    bad("backbone-bound", "%r from %s exceeds %r" % (val, lab, bb_max))
            for pk, lab, val in g["dets"]["sidechain"]:
                partner = by_key.get(pk)
                limit = 2 * hb_max
                if partner is not None:
                    pair = frozenset((g["type"], partner["type"]))
                    exc = {frozenset(("CYS",)): p.CYS_CYS_exception, frozenset(("COO", "HIS")): p.COO_HIS_exception,
                           frozenset(("OCO", "HIS")): p.OCO_HIS_exception,
                           frozenset(("CYS", "HIS")): p.CYS_HIS_exception}.get(pair)
                    if exc is not None:
                        limit = max(limit, float(exc))
                if abs(val) > limit + eps:
                    bad("sidechain-bound", "%r from %s exceeds %r" % (val, lab, limit))
                if partner is not None and partner["hetatm"]:
                    classes.add("ligand-sidechain:" + partner["type"])
                if abs(abs(val) - 1.6) < 1e-9 or abs(abs(val) - 3.6) < 1e-9:
                    classes.add("exception-value")
            for pk, lab, val in g["dets"]["coulomb"]:
                partner = by_key.get(pk)
                if partner is None:
                    continue
                pq = sign(partner["charge"])
                if partner["type"] == "ION":
                    # formal charge of the ion from the harness's own table (chemistry of the residue name)
                    formal = gen.ION_CHARGE.get(partner["resname"].strip())
                    if formal is not None and formal != partner["charge"]:
                        bad("ion-formal-charge", "ion %s (%s) carries charge %r, formal charge %+d" % (
                            lab, partner["resname"].strip(), partner["charge"], formal))
                        continue
                    classes.add("ion:" + partner["resname"].strip())
                    if val * pq > eps:         # a positive ion lowers every pKa, a negative one raises it
                        bad("ion-sign", "ion %s (charge %+d) gives %r" % (lab, pq, val))
                    if abs(val) > abs(partner["charge"]) * coul_max + eps:
                        bad("ion-bound", "%r from %s exceeds %r" % (val, lab, abs(partner["charge"]) * coul_max))
                    continue
                if abs(val) > coul_max + eps:
                    bad("coulomb-bound", "%r from %s exceeds %r" % (val, lab, coul_max))
                if pq == 0:
                    continue
                if pq == -q:
                    if val * q < -eps:
                        bad("coulomb-sign", "charge %+d, oppositely charged %s gives %r" % (q, lab, val))
                    # equal and opposite for acid-base pairs of reported protein side chains
                    if not g["hetatm"] and not partner["hetatm"] and g["reported"] and partner["reported"] \
                            and g["ctg"] is None and partner["ctg"] is None:
                        back = [x for (k2, _l, x) in partner["dets"]["coulomb"] if k2 == g["key"]]
                        mine = [x for (k2, _l, x) in g["dets"]["coulomb"] if k2 == pk]
                        if abs(sum(back) + sum(mine)) > 1e-9:
                            bad("acid-base-equal-and-opposite", "%r towards %s, %r back" % (mine, lab, back))
                else:
                    classes.add("like-charge:" + ("acid" if q < 0 else "base"))
                    if val * q > eps:
                        bad("coulomb-sign", "charge %+d, like-charged %s gives %r" % (q, lab, val))
                if partner["hetatm"] or g["hetatm"]:
                    classes.add("ligand-coulomb:" + (partner["type"] if partner["hetatm"] else g["type"]))
    if bounds_only:
        # determinant sharing copies determinants between covalently coupled groups whatever their charge: only the
        # magnitude bounds apply
        v = [x for x in v if x["clause"].endswith("-bound") or x["clause"] == "buried-fraction"]
    return v[:6], {"labels": sorted(classes), "nontrivial": bool(classes)}


def unit_case(case):
    from propka import energy
    from propka.parameters import Parameters
    p = Parameters()
    v = []
    kind = case["fn"]
    a = case["args"]
    try:
        if kind == "coulomb":
            d1, d2, w = a
            e1, e2 = energy.coulomb_energy(d1, w, p), energy.coulomb_energy(d2, w, p)
            hi = COULOMB_SCALING / ((160 - 130 * w) * p.coulomb_cutoff1)
            for d, e in ((d1, e1), (d2, e2)):
                if not (0 <= e <= hi + 1e-12):
                    v.append({"clause": "unit/coulomb-range", "detail": "coulomb_energy(%r, %r) = %r not in [0, %r]" % (
                        d, w, e, hi)})
                if d >= p.coulomb_cutoff2 and e != 0:
                    v.append({"clause": "unit/coulomb-cutoff", "detail": "coulomb_energy(%r, %r) = %r beyond the outer "
                              "cut-off" % (d, w, e)})
            if d1 <= d2 and e1 + 1e-12 < e2:
                v.append({"clause": "unit/coulomb-monotone", "detail": "%r at %r < %r at %r" % (e1, d1, e2, d2)})
        elif kind == "hbond":
            d, mx, c1, span, f = a
            e = energy.hydrogen_bond_energy(d, mx, [c1, c1 + span], f)
            if not (0 <= e <= abs(mx * f) + 1e-12):
                v.append({"clause": "unit/hbond-range", "detail": "hydrogen_bond_energy%r = %r" % (tuple(a), e)})
            if d > c1 + span and e != 0:
                v.append({"clause": "unit/hbond-cutoff", "detail": "hydrogen_bond_energy%r = %r beyond the outer "
                          "cut-off" % (tuple(a), e)})
        elif kind == "weight":
            n1, n2 = a
            w = energy.calculate_weight(p, n1)
            pw = energy.calculate_pair_weight(p, n1, n2)
            sf = energy.calculate_scale_factor(p, w)
            if not (0 <= w <= 1 and 0 <= pw <= 1):
                v.append({"clause": "unit/weight-range", "detail": "weight(%r) = %r, pair weight(%r, %r) = %r" % (
                    n1, w, n1, n2, pw)})
            if not (p.desolvationSurfaceScalingFactor - 1e-12 <= sf <= 1 + 1e-12):
                v.append({"clause": "unit/scale-factor-range", "detail": "scale factor(%r) = %r" % (w, sf)})
            if energy.calculate_weight(p, n1 + 1) + 1e-15 < w:
                v.append({"clause": "unit/weight-monotone", "detail": "n=%r" % n1})
    except Exception as e:
        v.append({"clause": "unit/no-exception", "detail": "%s%r: %s: %s" % (kind, tuple(a), type(e).__name__, e)})
    return v, {"nontrivial": True, "labels": ["unit:" + kind]}


def replay(case):
    if case.get("kind") == "unit":
        return unit_case(case)[0]
    return check_case(case)[0]


def run_shard(ctx):
    quick = ctx.tier == "quick"

    @st.composite
    def cases(draw):
        if draw(st.integers(0, 9)) < 6:
            s = draw(gen.buried_structures())
        else:
            s = draw(gen.structures(max_res=40 if quick else 80, max_atoms=1600))
        allowance = draw(st.sampled_from([0, 0, 0, 0.1, 0.4]))
        flags = {}
        if not allowance and draw(st.integers(0, 3)) == 0:
            # with determinant sharing only the magnitude bounds are asserted (see check_case)
            flags = {"shared_determinants": draw(st.integers(0, 1)), "remove_penalised_group": draw(st.integers(0, 1)),
                     "common_charge_centre": draw(st.integers(0, 1))}
        spec = None
        if not allowance and not flags and draw(st.integers(0, 3)) == 0:
            # other configured maxima / exclusions: the bounds are read from the parameters the run used, and runs with
            # different parameter files alternate within one process
            spec = {}
            if draw(st.booleans()):
                spec["changes"] = {"sidechain_interaction": draw(st.sampled_from(["0.30", "0.50", "1.20"]))}
            if draw(st.booleans()):
                spec.setdefault("changes", {})["coulomb_cutoff1"] = draw(st.sampled_from(["3.0", "5.0"]))
            k = draw(st.integers(0, 2))
            if k or not spec:
                spec["extra"] = ["exclude_sidechain_interactions %s" % r for r in
                                 draw(st.lists(st.sampled_from(["TYR", "HIS", "CYS", "LYS", "ASP", "GLU"]),
                                               min_size=1, max_size=2, unique=True))]
        return s, allowance, flags, spec

    def body(t):
        s, allowance, flags, spec = t
        case = {"pdb": s.text, "allowance": allowance, "flags": flags, "cfgspec": spec}
        v, info = check_case(case)
        info["labels"] = info.get("labels", []) + [l for l in s.labels if l.startswith("cluster:")] + \
            (["allowance>0"] if allowance else []) + (["cfg-variant"] if flags else []) + \
            (["cfg:" + "+".join(sorted((spec.get("changes") or {}).keys()) + (["exclude"] if spec.get("extra") else []))]
             if spec else [])
        info["sample"] = {"structure": s.summary(), "threaded": s.info.get("mutated"), "desolvationAllowance": allowance, "flags": flags,
                          "cfgspec": spec, "classes": info.get("labels", [])[:10]}
        ctx.account(case, v, info)

    ctx.hypothesis_stage("structures", cases(), body, 900 if quick else 12000)

    # every ion name and every library ligand next to a buried cluster, a few hosts each (the drawn cases above meet
    # the rarer names too seldom)
    names = sorted(gen.IONS) + sorted(gen.LIGANDS)
    mine = [names[i] for i in ctx.my_slice(len(names))]
    for name in mine:
        def lib_body(s, name=name):
            case = {"pdb": s.text, "allowance": 0, "flags": {}, "cfgspec": None}
            v, info = check_case(case)
            info["labels"] = info.get("labels", []) + ["library-next-to-cluster"]
            info["sample"] = {"structure": s.summary(), "library_molecule": name, "classes": info.get("labels", [])[:10]}
            ctx.account(case, v, info)
        ctx.hypothesis_stage("library-next-to-cluster", gen.buried_structures(hetero=name), lib_body,
                             (3 if quick else 40) * ctx.nshards)

    # the reference files with ligands / coupled systems under the sharing flags
    combos = [(n, f) for n in ("4DFR", "1HPX", "1FTJ-Chain-A", "3SGB") for f in (
        {}, {"shared_determinants": 1, "remove_penalised_group": 0, "common_charge_centre": 0},
        {"shared_determinants": 1, "remove_penalised_group": 1, "common_charge_centre": 1},
        {"shared_determinants": 0, "remove_penalised_group": 0, "common_charge_centre": 1})]
    mine = [combos[i] for i in ctx.my_slice(len(combos))]

    def corpus_body(t):
        n, flags = t
        case = {"pdb": gen.corpus_text(n), "allowance": 0, "flags": flags}
        v, info = check_case(case)
        info["sample"] = {"structure": "corpus " + n, "flags": flags}
        ctx.account(case, v, info)

    ctx.loop_stage("corpus-files", mine, corpus_body)

    @st.composite
    def units(draw):
        fn = draw(st.sampled_from(["coulomb", "hbond", "weight"]))
        if fn == "coulomb":
            d1 = draw(st.floats(0.0, 15.0))
            d2 = d1 + draw(st.floats(0.0, 12.0))
            args = [d1, d2, draw(st.floats(0.0, 1.0))]
        elif fn == "hbond":
            args = [draw(st.floats(0.0, 8.0)), draw(st.sampled_from([0.85, -0.85, 0.8, 1.6])),
                    draw(st.sampled_from([1.85, 2.0, 2.5, 3.0, 3.5])), draw(st.sampled_from([1.0, 0.5, 2.0])),
                    draw(st.floats(0.0, 1.0))]
        else:
            args = [draw(st.integers(0, 1500)), draw(st.integers(0, 1500))]
        return {"kind": "unit", "fn": fn, "args": args}

    def unit_body(case):
        v, info = unit_case(case)
        info["sample"] = dict(case)
        ctx.account(case, v, info)

    ctx.hypothesis_stage("energy-functions", units(), unit_body, 20000 if quick else 300000)
