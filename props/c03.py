"""C03 - results are a pure function of input content and options (call histories).

Stateful model-based testing: a Hypothesis RuleBasedStateMachine issues sequences of API / CLI calls inside one
process (same input repeated, different inputs and options interleaved, path vs. stream input, several files in one
CLI invocation, changes of working directory, allocation churn, garbage-collector toggling).  Oracle: after every
run its canonical record (every float bit for bit, the .pka text minus the date line) equals the record of the same
(content, options) computed ALONE IN A FRESH INTERPRETER; the references themselves are computed under three hash
seeds and as path and as stream and must agree.  Every shard runs its histories in an interpreter started with a
different PYTHONHASHSEED.
"""
import gc
import hashlib
import io
import json
import os
import subprocess
import sys
import tempfile
import time
import traceback

ROOT = os.path.dirname(os.path.dirname(os.path.abspath(__file__)))

PROPERTY = "C03"
LEVEL = "exploration"
RULE = ("histories of up to 12 steps over a per-run catalogue of inputs (generated peptides, inputs with an element "
        "missing from the valence table, ligands with covalently coupled groups, multi-conformation files, a CR LF copy, "
        "a copy with a non-ASCII chain identifier, "
        "buried clusters of coupled acids, the corpus file 1HPX) x option sets (default, -d, -i, -c, -k, --protonate-all, "
        "-g/-w, -p variant, -q); rules: run from stream, run from path (drawn directory and cwd), CLI main() with "
        "several files, allocation churn, gc toggle, chdir; 16 interpreters with different hash seeds. Non-trivial: "
        "the history repeats an (input, options) pair after a different run, or runs -d on a coupled system, or "
        "follows an unknown-element input; distinct by hash of the step sequence.")
ASSUMPTIONS = [
    "object addresses and set iteration orders cannot be enumerated: they are perturbed (allocation churn, 16 hash "
    "seeds, fresh reference processes); a miss is possible, a false alarm is not - any observed difference is a real "
    "irreproducibility",
    "the order of covalently coupled partner lists is not a reported number and is compared as a set",
]
PY = sys.executable
REFS = {}           # filled by prepare(): {"dir": ..., "inputs": [...], "optsets": {...}}


# ---- canonical records ------------------------------------------------------------------------------------------------

def canon(rec):
    out = {"error": rec.get("error") and {"type": rec["error"]["type"], "frame": rec["error"].get("frame")},
           "conf_names": rec.get("conf_names"), "pka_text": rec.get("pka_text"), "confs": rec.get("confs")}
    return json.dumps(out, sort_keys=True)


def run_record(text, optargs, mode, workdir, name="inp"):
    from vlib import observe
    if mode == "path":
        d = tempfile.mkdtemp(prefix="p_", dir=workdir)
        path = os.path.join(d, name + ".pdb")
        with open(path, "w") as fh:
            fh.write(text)
        rec = observe.run(text, optargs, path=path)
    else:
        rec = observe.run(text, optargs, name=name)
    return canon(rec)


# ---- reference runs in fresh interpreters ------------------------------------------------------------------------------

def ref_job(argv):
    """Executed as ``python -m props.c03 --ref <job.json> <out.json>`` alone in a fresh interpreter."""
    import logging
    logging.disable(logging.CRITICAL)
    job = json.load(open(argv[0]))
    os.chdir(os.path.dirname(argv[1]))
    text = open(job["input"]).read()
    rec = run_record(text, job["optargs"], job["mode"], os.path.dirname(argv[1]))
    with open(argv[1], "w") as fh:
        fh.write(rec)


def build_catalogue(tier, seed):
    """Deterministic catalogue of inputs (pure function of VERIF_SEED)."""
    import hypothesis
    from hypothesis import given, settings, HealthCheck, strategies as st
    from vlib import gen, genconf, pdbio
    from vlib.runner import hseed
    out = []

    def collect(strategy, n, tag):
        got = []

        @hypothesis.seed(hseed(seed, "C03", "catalogue", tag))
        @settings(max_examples=n, database=None, deadline=None, suppress_health_check=list(HealthCheck),
                  phases=[hypothesis.Phase.generate])
        @given(strategy)
        def t(x):
            got.append(x)
        t()
        return got[:n]

    nplain = 3 if tier == "quick" else 14
    for s in collect(gen.structures(max_res=14, allow_hetero=False, allow_truncation=False), nplain + 2, "plain"):
        if len(out) < nplain and len(s.atoms()) > 15:
            out.append({"kind": "plain", "text": s.text})
    if out:
        # the same content with CR LF line ends: a path is read with newline translation, a stream is not
        out.append({"kind": "crlf", "text": out[0]["text"].replace("\n", "\r\n")})
        # a chain identifier outside ASCII (any single character is accepted as a chain id): a path is decoded by the
        # program, a stream arrives decoded.  Left out when the process encoding cannot represent the character.
        import locale
        try:
            "\u00e9".encode(locale.getpreferredencoding(False))
            ok_enc = True
        except (UnicodeError, LookupError):
            ok_enc = False
        if ok_enc:
            src = out[1 % (len(out) - 1)]["text"] if len(out) > 2 else out[0]["text"]
            lines = []
            for line in src.split("\n"):
                if line.startswith(("ATOM", "HETATM", "TER")) and len(line) > 21 and line[21] != " ":
                    line = line[:21] + "\u00e9" + line[22:]
                lines.append(line)
            out.append({"kind": "non-ascii-chain-id", "text": "\n".join(lines)})
        # sloppy content: CR LF, unpadded TER lines, no terminal oxygens (purity must hold for any content at all)
        sloppy = []
        for line in out[-2]["text"].split("\n") if len(out) > 1 else []:
            if line.startswith("TER"):
                sloppy.append("TER")
            elif line[12:16].strip() in ("OXT", "O''"):
                continue
            else:
                sloppy.append(line)
        multi = collect(gen.structures(max_res=10, allow_hetero=False, allow_truncation=False, multi_chain=True,
                                       always_ter=True), 3, "sloppy")
        for s in multi:
            if s.text.count("TER") >= 2:
                sloppy = []
                for line in s.text.split("\n"):
                    if line.startswith("TER"):
                        sloppy.append("TER")
                    elif line[12:16].strip() not in ("OXT", "O''"):
                        sloppy.append(line)
                break
        if sloppy:
            out.append({"kind": "sloppy-crlf", "text": "\r\n".join(sloppy)})
    base = collect(gen.structures(max_res=12, allow_hetero=False, allow_truncation=False), 6, "base")
    base = [s for s in base if len(s.atoms()) > 15] or base
    for k, el in enumerate(["XX", "QQ"] if tier == "quick" else ["XX", "QQ", "ZZ", "XA"]):
        s = base[k % len(base)]
        b1 = pdbio.bbox(s.entries)[1]
        het = pdbio.Atom(rec="HETATM", name="%s1 " % el, resn="UNK", chain="U", resnum=700 + k, x=b1[0] + 3500,
                         y=b1[1], z=b1[2])
        out.append({"kind": "unknown-element", "text": pdbio.write([e for e in s.entries if isinstance(e, pdbio.Atom)
                                                                   or e.startswith("TER")] + [het])})
    for k, lig in enumerate(["MLA", "MPO"] if tier == "quick" else ["MLA", "MPO", "MGX", "AMD", "PYR"]):
        s = base[(k + 2) % len(base)]
        b1 = pdbio.bbox(s.entries)[1]
        het = gen.hetero_residue(gen.LIGANDS[lig]["resn"], gen.LIGANDS[lig]["atoms"], "L", 800, pdbio.ROTATIONS[k],
                                 (b1[0] + 3600, b1[1], b1[2]))
        out.append({"kind": "ligand", "text": pdbio.write([e for e in s.entries if isinstance(e, pdbio.Atom)
                                                          or e.startswith("TER")] + het)})
    # a ligand whose covalently coupled groups have identical pKa values (three phosphate oxygens far from everything):
    # the choice between them must not depend on object addresses
    s = base[0]
    b1 = pdbio.bbox(s.entries)[1]
    het = gen.hetero_residue(gen.LIGANDS["MPO"]["resn"], gen.LIGANDS["MPO"]["atoms"], "L", 801, pdbio.ROTATIONS[3],
                             (b1[0] + 16000, b1[1] + 16000, b1[2] + 16000))
    out.append({"kind": "ligand-tied-groups", "text": pdbio.write([e for e in s.entries if isinstance(e, pdbio.Atom)
                                                                  or e.startswith("TER")] + het)})
    for text, info in collect(genconf.multi_conformation(max_res=10), 2 if tier == "quick" else 8, "conf"):
        out.append({"kind": "multi-conformation", "text": text})
    for s in collect(gen.buried_structures(pair_kind="acid-acid", with_hetero=False), 1 if tier == "quick" else 6,
                     "buried"):
        out.append({"kind": "coupled-cluster", "text": s.text})
    out.append({"kind": "coupled-corpus", "text": gen.corpus_text("1HPX")})
    if tier != "quick":
        out.append({"kind": "coupled-corpus", "text": gen.corpus_text("4DFR")})
    return out


def option_sets(text, refs_dir):
    from vlib import pdbio
    from props import c14, c13, c02
    entries = pdbio.parse(text)
    ids = [r for r in c14.residue_ids(entries) if r[0] != " "][:6]
    chains = c13.chain_ids(entries)
    cfg = os.path.join(refs_dir, "variant.cfg")
    sets = {"default": [], "-d": ["-d"], "-k": ["-k"], "--protonate-all": ["--protonate-all"], "-q": ["-q"],
            "--log-level DEBUG": ["--log-level", "DEBUG"], "-g": ["-g", "2", "12", "2"],
            "-g/-w": ["-g", "0", "10", "0.5", "-w", "2", "8", "2"], "-p": ["-p", cfg],
            "-p2": ["-p", os.path.join(refs_dir, "variant2.cfg")]}
    if ids:
        sets["-i"] = ["-i", c14.render(ids)]
    if chains:
        sets["-c"] = ["-c", chains[0]]
    return sets


def prepare(tier, seed, outdir):
    """Build the catalogue and the fresh-interpreter references (parallel), before the shards are forked."""
    t0 = time.time()
    refs_dir = tempfile.mkdtemp(prefix="vp_c03_refs_")
    from props import c02
    cwd = os.getcwd()
    os.chdir(refs_dir)
    # a parameter file that differs from the shipped one in scoring flags AND in the coupling thresholds, so that a
    # Parameters object leaking from one run into the next changes visible results
    changed = {"remove_penalised_group": "0", "shared_determinants": "1", "common_charge_centre": "1",
               "max_intrinsic_pka_diff": "0.5", "min_interaction_energy": "2.0", "max_free_energy_diff": "0.2",
               "min_swap_pka_shift": "2.5", "desolvationAllowance": "0.05"}
    lines = []
    for line in open(os.path.join(os.environ.get("VERIF_REPO", "/repo"), "propka", "propka.cfg")):
        w = line.split()
        lines.append("%s %s\n" % (w[0], changed[w[0]]) if w and w[0] in changed else line)
    with open(os.path.join(refs_dir, "variant.cfg"), "w") as fh:
        fh.writelines(lines)
    # a second parameter file: other distance cut-offs, another side-chain maximum, shifted and custom model pKa values
    changed2 = {"desolv_cutoff": "30.0", "buried_cutoff": "18.0", "coulomb_cutoff2": "12.0",
                "sidechain_interaction": "0.30", "Nmin": "150"}
    lines2 = []
    for line in open(os.path.join(os.environ.get("VERIF_REPO", "/repo"), "propka", "propka.cfg")):
        w = line.split()
        if w and w[0] in changed2:
            lines2.append("%s %s\n" % (w[0], changed2[w[0]]))
        elif len(w) >= 3 and w[0] == "model_pkas":
            lines2.append("model_pkas %s %.2f\n" % (w[1], float(w[2]) + 0.35))
        else:
            lines2.append(line)
    lines2.append("custom_model_pkas MPO-O1 2.10\ncustom_model_pkas MLA-C2 3.10\nexclude_sidechain_interactions TYR\n")
    with open(os.path.join(refs_dir, "variant2.cfg"), "w") as fh:
        fh.writelines(lines2)
    os.chdir(cwd)
    cat = build_catalogue(tier, seed)
    jobs = []
    for i, item in enumerate(cat):
        item["id"] = i
        item["path"] = os.path.join(refs_dir, "input_%d.pdb" % i)
        with open(item["path"], "w") as fh:
            fh.write(item["text"])
        item["optsets"] = option_sets(item["text"], refs_dir)
        for oname, opt in item["optsets"].items():
            for variant, (hs, mode) in enumerate((("0", "stream"), ("1", "path"), (str(1000 + seed % 1000), "stream"))):
                jobs.append((i, oname, variant, hs, mode, opt))
    procs = []
    results = {}
    maxpar = 16
    env0 = dict(os.environ)

    def launch(job):
        i, oname, variant, hs, mode, opt = job
        tag = "%d_%s_%d" % (i, hashlib.md5(oname.encode()).hexdigest()[:6], variant)
        jd = os.path.join(refs_dir, "job_" + tag)
        os.makedirs(jd, exist_ok=True)
        jf, of = os.path.join(jd, "job.json"), os.path.join(jd, "out.json")
        json.dump({"input": cat[i]["path"], "optargs": opt, "mode": mode}, open(jf, "w"))
        env = dict(env0)
        env["PYTHONHASHSEED"] = hs
        p = subprocess.Popen([PY, "-m", "props.c03", "--ref", jf, of], cwd=ROOT, env=env, stdout=subprocess.DEVNULL,
                             stderr=subprocess.PIPE)
        return (job, of, p)

    pending = list(jobs)
    running = []
    errors = []
    while pending or running:
        while pending and len(running) < maxpar:
            running.append(launch(pending.pop()))
        still = []
        for job, of, p in running:
            if p.poll() is None:
                still.append((job, of, p))
                continue
            if p.returncode != 0 or not os.path.exists(of):
                errors.append("reference job %r failed: %s" % (job[:5], (p.stderr.read() or b"")[-300:]))
            else:
                results[(job[0], job[1], job[2])] = open(of).read()
        running = still
        if running:
            time.sleep(0.01)
    # agreement of the three fresh-interpreter references (hash seeds 0 / 1 / seed-derived, stream / path)
    ref = {}
    disagreements = []
    for i, item in enumerate(cat):
        for oname in item["optsets"]:
            vals = [results.get((i, oname, k)) for k in range(3)]
            if any(v is None for v in vals):
                continue
            ref[(i, oname)] = vals[0]
            if len(set(vals)) != 1:
                disagreements.append((i, oname))
    REFS.update({"dir": refs_dir, "catalogue": cat, "ref": ref, "disagreements": disagreements, "errors": errors,
                 "prepare_wall_s": round(time.time() - t0, 1), "n_reference_runs": len(jobs)})
    with open(os.path.join(refs_dir, "refs.json"), "w") as fh:
        json.dump({"catalogue": cat, "ref": {"%d|%s" % k: v for k, v in ref.items()},
                   "disagreements": disagreements, "errors": errors}, fh)


# ---- the state machine ----------------------------------------------------------------------------------------------------

def first_diff(a, b):
    if a is None or b is None:
        return "missing reference"
    ja, jb = json.loads(a), json.loads(b)
    if ja["error"] != jb["error"]:
        return "error %r vs %r" % (ja["error"], jb["error"])
    if ja["pka_text"] != jb["pka_text"]:
        la, lb = (ja["pka_text"] or "").splitlines(), (jb["pka_text"] or "").splitlines()
        i = next((i for i, (x, y) in enumerate(zip(la, lb)) if x != y), min(len(la), len(lb)))
        txt = "pka text line %d: %r vs %r" % (i, la[i:i + 1], lb[i:i + 1])
    else:
        txt = "pka text equal"
    for c in sorted(set(ja["confs"] or {}) | set(jb["confs"] or {})):
        ga, gb = (ja["confs"] or {}).get(c), (jb["confs"] or {}).get(c)
        if ga != gb:
            if ga is None or gb is None:
                return "conformation %s only on one side; %s" % (c, txt)
            for x, y in zip(ga["groups"], gb["groups"]):
                if x != y:
                    keys = [k for k in x if x[k] != y.get(k)]
                    return "conf %s group %s fields %r: %r vs %r; %s" % (
                        c, x["label"], keys[:3], [x[k] for k in keys[:2]], [y.get(k) for k in keys[:2]], txt)
            return "conf %s group lists differ in length; %s" % (c, txt)
    return txt


def make_machine(ctx, refs, workdir, quick):
    import hypothesis
    from hypothesis import strategies as st
    from hypothesis.stateful import RuleBasedStateMachine, rule, initialize, precondition
    from vlib.runner import Violation
    cat = refs["catalogue"]
    ref = refs["ref"]
    pairs = sorted(ref.keys())

    class Histories(RuleBasedStateMachine):
        def __init__(self):
            super().__init__()
            # a parameter file with other settings lies in one of the working directories under the default name
            trap = os.path.join(workdir, "b", "c")
            os.makedirs(trap, exist_ok=True)
            if not os.path.exists(os.path.join(trap, "propka.cfg")):
                import shutil
                shutil.copy(cat[0]["optsets"]["-p"][1], os.path.join(trap, "propka.cfg"))
            self.steps = []
            self.keep = []
            self.gc_was = gc.isenabled()
            self.seen = []
            self.nontrivial = False
            os.chdir(workdir)

        def teardown(self):
            if self.gc_was:
                gc.enable()
            self.keep = []
            os.chdir(workdir)
            if self.steps:
                case = {"steps": self.steps}
                labels = sorted(set("rule:" + s[0] for s in self.steps)) + \
                    sorted(set("opt:" + s[2] for s in self.steps if len(s) > 2 and isinstance(s[2], str)))
                ctx.account(case, [], {"nontrivial": self.nontrivial, "labels": labels,
                                       "sample": {"history": [list(s)[:4] for s in self.steps]}})

        def _judge(self, i, oname, got, how):
            self.steps.append((how, i, oname))
            kind = cat[i]["kind"]
            if (i, oname) in self.seen and self.seen[-1] != (i, oname):
                self.nontrivial = True
            if oname == "-d" and kind.startswith("coupled"):
                self.nontrivial = True
            if any(cat[j]["kind"] == "unknown-element" for j, _o in self.seen):
                self.nontrivial = True
            self.seen.append((i, oname))
            want = ref.get((i, oname))
            if got != want:
                case = {"steps": self.steps, "catalogue": {str(j): cat[j]["text"] for j in
                                                           sorted(set(s[1] for s in self.steps if isinstance(s[1], int)))},
                        "optsets": {str(j): cat[j]["optsets"] for j in sorted(set(s[1] for s in self.steps
                                                                                 if isinstance(s[1], int)))}}
                raise Violation(case, [{"clause": "run==fresh-interpreter-reference",
                                        "detail": "step %d (%s, input %d [%s], options %s): %s" % (
                                            len(self.steps), how, i, kind, oname, first_diff(got, want))}])

        @rule(k=st.integers(0, len(pairs) - 1), sub=st.sampled_from([".", ".", "b/c"]))
        def run_stream(self, k, sub):
            i, oname = pairs[k]
            d = os.path.join(workdir, sub)
            os.makedirs(d, exist_ok=True)
            os.chdir(d)
            try:
                got = run_record(cat[i]["text"], cat[i]["optsets"][oname], "stream", workdir)
            finally:
                os.chdir(workdir)
            self._judge(i, oname, got, "stream")

        @rule(k=st.integers(0, len(pairs) - 1), frac=st.floats(0, 1), again=st.booleans())
        def run_stream_in_use(self, k, frac, again):
            """A stream object that was already read up to some position, then the same object once more (the reader
            documents that it rewinds file-like input)."""
            import io
            from vlib import observe
            i, oname = pairs[k]
            text = cat[i]["text"]
            stream = io.StringIO(text)
            stream.read(int(frac * len(text)))
            got = canon(observe.run(text, cat[i]["optsets"][oname], name="inp", stream_obj=stream))
            self._judge(i, oname, got, "stream-in-use")
            if again and not stream.closed:
                got = canon(observe.run(text, cat[i]["optsets"][oname], name="inp", stream_obj=stream))
                self._judge(i, oname, got, "stream-in-use")

        @rule(k=st.integers(0, len(pairs) - 1), sub=st.sampled_from(["a", "b/c", "."]))
        def run_path(self, k, sub):
            i, oname = pairs[k]
            d = os.path.join(workdir, sub)
            os.makedirs(d, exist_ok=True)
            os.chdir(d)
            try:
                got = run_record(cat[i]["text"], cat[i]["optsets"][oname], "path", workdir)
            finally:
                os.chdir(workdir)
            self._judge(i, oname, got, "path")

        @rule(ks=st.lists(st.integers(0, len(cat) - 1), min_size=1, max_size=3, unique=True),
              oname=st.sampled_from(["default", "-q", "-g/-w", "-k", "--protonate-all", "-c", "-i", "-p2"]))
        def run_cli(self, ks, oname):
            """propka.run.main with several files in one invocation; the written .pka texts are compared."""
            import propka.run
            if oname in ("-c", "-i"):
                # input-specific option values: the same input twice in one invocation
                ks = [ks[0], ks[0]]
            if oname not in cat[ks[0]]["optsets"]:
                return
            d = tempfile.mkdtemp(prefix="cli_", dir=workdir)
            os.chdir(d)
            try:
                names = []
                for n, i in enumerate(ks):
                    fn = os.path.join(d, "f%d_%d.pdb" % (n, i))
                    with open(fn, "w") as fh:
                        fh.write(cat[i]["text"])
                    names.append(fn)
                opt = list(cat[ks[0]]["optsets"][oname])
                args = opt[:]
                for fn in names[:-1]:
                    args += ["-f", fn]
                args.append(names[-1])
                try:
                    propka.run.main([args])
                except Exception as e:
                    raise Violation({"steps": self.steps + [("cli", ks, oname)]},
                                    [{"clause": "cli-runs", "detail": "%s: %s" % (type(e).__name__, e)}])
                for n, i in enumerate(ks):
                    stem = "f%d_%d" % (n, i)
                    txt = open(os.path.join(d, stem + ".pka")).read().split("\n", 1)[1]
                    want = ref.get((i, oname))
                    self.steps.append(("cli", i, oname))
                    self.seen.append((i, oname))
                    if want is not None and json.loads(want)["pka_text"] != txt:
                        la, lb = txt.splitlines(), (json.loads(want)["pka_text"] or "").splitlines()
                        j = next((j for j, (x, y) in enumerate(zip(la, lb)) if x != y), min(len(la), len(lb)))
                        raise Violation({"steps": self.steps, "catalogue": {str(i): cat[i]["text"]},
                                         "optsets": {str(i): cat[i]["optsets"]}},
                                        [{"clause": "cli==fresh-interpreter-reference",
                                          "detail": "file %d of one invocation (input %d, %s): line %d %r vs %r" % (
                                              n, i, oname, j, la[j:j + 1], lb[j:j + 1])}])
            finally:
                os.chdir(workdir)

        @rule(k=st.integers(0, len(pairs) - 1), version=st.sampled_from(["-p", "-p2"]))
        def run_with_rewritten_parameter_file(self, k, version):
            """One path, two contents over time: the parameter file is rewritten in place before the run."""
            import shutil
            i = pairs[k][0]
            live = os.path.join(workdir, "live.cfg")
            shutil.copy(cat[i]["optsets"][version][1], live)
            got = run_record(cat[i]["text"], ["-p", live], "stream", workdir)
            self._judge(i, version, got, "rewritten-cfg")

        @rule(k1=st.integers(0, len(pairs) - 1), k2=st.integers(0, len(pairs) - 1))
        def calculate_two_then_write(self, k1, k2):
            """Two molecules are calculated before either .pka file is written (API use)."""
            import io
            import propka.run
            mols = []
            for k in (k1, k2):
                i, oname = pairs[k]
                if oname == "-d":
                    oname = "default"
                try:
                    mols.append((i, oname, propka.run.single("two.pdb", cat[i]["optsets"][oname],
                                                             stream=io.StringIO(cat[i]["text"]), write_pka=False)))
                except BaseException:
                    return
            for i, oname, mol in mols:
                mol.write_pka()
                fn = "two.pka"
                txt = open(fn).read().split("\n", 1)[1]
                os.remove(fn)
                want = ref.get((i, oname))
                self.steps.append(("two-then-write", i, oname))
                self.seen.append((i, oname))
                if want is not None and json.loads(want)["error"] is None and json.loads(want)["pka_text"] != txt:
                    la, lb = txt.splitlines(), (json.loads(want)["pka_text"] or "").splitlines()
                    j = next((j for j, (x, y) in enumerate(zip(la, lb)) if x != y), min(len(la), len(lb)))
                    raise Violation({"steps": self.steps, "catalogue": {str(i): cat[i]["text"]},
                                     "optsets": {str(i): cat[i]["optsets"]}},
                                    [{"clause": "written-file==fresh-interpreter-reference",
                                      "detail": "input %d (%s) written after another molecule was calculated: line %d "
                                                "%r vs %r" % (i, oname, j, la[j:j + 1], lb[j:j + 1])}])

        @rule(n=st.integers(1, 20000), keep=st.booleans())
        def churn(self, n, keep):
            junk = [object() for _ in range(n)] + [[k] for k in range(n // 7)] + [{"k": n}]
            if keep:
                self.keep.append(junk[::3])
            self.steps.append(("churn", n, keep))

        @rule(collect=st.booleans())
        def gc_toggle(self, collect):
            if gc.isenabled():
                gc.disable()
            else:
                gc.enable()
            if collect:
                gc.collect()
            self.steps.append(("gc", gc.isenabled(), collect))

    return Histories


def run_shard(ctx):
    """Runs in the forked shard: re-executes the histories in a new interpreter with a shard-specific hash seed."""
    refs = REFS
    if refs.get("errors"):
        ctx.errors.extend(refs["errors"][:3])
        return
    # disagreement between fresh-interpreter references is itself a violation (reported once, by shard 0)
    if ctx.shard == 0:
        from vlib.runner import Violation
        ctx.notes["reference_runs_in_fresh_interpreters"] = refs["n_reference_runs"]
        ctx.notes["catalogue"] = [c["kind"] for c in refs["catalogue"]]
        for (i, oname) in refs["disagreements"]:
            item = refs["catalogue"][i]
            try:
                ctx.account({"fresh": True, "pdb": item["text"], "optargs": item["optsets"][oname]},
                            [{"clause": "fresh-interpreters-agree", "detail": "input %d [%s] options %s: records differ "
                              "between hash seeds / path vs stream" % (i, item["kind"], oname)}], {})
            except Violation as v:
                ctx.record_violation("fresh-references", v)
                break
        ctx.count(len(refs["ref"]), nontrivial=len(refs["ref"]), labels=["fresh-reference-triple"])
    out = os.path.join(refs["dir"], "shard_%d.json" % ctx.shard)
    env = dict(os.environ)
    env["PYTHONHASHSEED"] = str([0, 1, 2, 3, 4, 5, 6, 7, 11, 42, 99, 1234, 31337, 65535, 100003, 4294967295][ctx.shard % 16])
    p = subprocess.run([PY, "-m", "props.c03", "--worker", refs["dir"], out, ctx.tier, str(ctx.seed), str(ctx.shard),
                        str(ctx.nshards), str(ctx.scale)], cwd=ROOT, env=env, stdout=subprocess.PIPE,
                       stderr=subprocess.PIPE, text=True)
    if p.returncode != 0 or not os.path.exists(out):
        ctx.errors.append("history worker failed (exit %s): %s" % (p.returncode, p.stderr[-600:]))
        return
    r = json.load(open(out))
    ctx.evaluations += r["evaluations"]
    ctx.nontrivial.update(r["nontrivial"])
    ctx.labels.update(r["labels"])
    ctx.samples.extend(r["samples"])
    ctx.violations.extend(r["violations"])
    ctx.errors.extend(r["errors"])
    ctx.stages.update(r["stages"])
    ctx.labels["hashseed:" + env["PYTHONHASHSEED"]] += 1


def worker(argv):
    refs_dir, out, tier, seed, shard, nshards, scale = argv
    import logging
    import warnings
    logging.disable(logging.CRITICAL)
    warnings.filterwarnings("ignore")
    from vlib.runner import Ctx, hseed, Violation
    import hypothesis
    from hypothesis import settings, HealthCheck, Phase
    from hypothesis.stateful import run_state_machine_as_test
    ctx = Ctx("C03", tier, int(seed), int(shard), int(nshards), float(scale))
    data = json.load(open(os.path.join(refs_dir, "refs.json")))
    refs = {"catalogue": data["catalogue"], "ref": {(int(k.split("|")[0]), k.split("|", 1)[1]): v
                                                    for k, v in data["ref"].items()}}
    workdir = tempfile.mkdtemp(prefix="vp_c03_w%s_" % shard)
    quick = tier == "quick"
    t0 = time.time()
    try:
        Machine = make_machine(ctx, refs, workdir, quick)
        n = ctx.budget(640 if quick else 6400)
        st_ = settings(max_examples=n, stateful_step_count=12, database=None, deadline=None,
                       suppress_health_check=list(HealthCheck), report_multiple_bugs=False,
                       phases=[Phase.generate] + ([] if quick else [Phase.shrink]),
                       verbosity=hypothesis.Verbosity.quiet)
        try:
            run_state_machine_as_test(hypothesis.seed(hseed(seed, "C03", "histories", shard))(Machine), settings=st_)
        except Violation as v:
            ctx.record_violation("histories", v)
        except Exception:
            ctx.errors.append("history machine: " + traceback.format_exc()[-1200:])
    finally:
        os.chdir("/")
        import shutil
        shutil.rmtree(workdir, ignore_errors=True)
    ctx.stages["histories"] = {"kind": "hypothesis-stateful", "cases": ctx.evaluations,
                               "wall_s": round(time.time() - t0, 1)}
    json.dump(ctx.result(), open(out, "w"), default=str)


def finalize(tier, merged):
    import shutil
    extra = {"reference_prepare_wall_s": REFS.get("prepare_wall_s")}
    if REFS.get("dir"):
        shutil.rmtree(REFS["dir"], ignore_errors=True)
    return extra


def replay(case):
    """Re-run a saved history in this process against references computed in fresh interpreters now."""
    if case.get("fresh"):
        vals = set()
        d = tempfile.mkdtemp(prefix="vp_c03_replay_")
        inp = os.path.join(d, "in.pdb")
        open(inp, "w").write(case["pdb"])
        for hs, mode in (("0", "stream"), ("1", "path"), ("77", "stream")):
            jf, of = os.path.join(d, "job%s.json" % hs), os.path.join(d, "out%s.json" % hs)
            json.dump({"input": inp, "optargs": case["optargs"], "mode": mode}, open(jf, "w"))
            env = dict(os.environ)
            env["PYTHONHASHSEED"] = hs
            subprocess.run([PY, "-m", "props.c03", "--ref", jf, of], cwd=ROOT, env=env)
            vals.add(open(of).read() if os.path.exists(of) else None)
        return [] if len(vals) == 1 else [{"clause": "fresh-interpreters-agree", "detail": "records differ"}]
    d = tempfile.mkdtemp(prefix="vp_c03_replay_")
    v = []
    refs = {}
    for step in case["steps"]:
        how = step[0]
        if how not in ("stream", "path", "cli"):
            if how == "churn":
                _ = [object() for _ in range(step[1])]
            continue
        i, oname = step[1], step[2]
        text = case["catalogue"][str(i)]
        opt = case["optsets"][str(i)][oname]
        if (i, oname) not in refs:
            inp = os.path.join(d, "in_%d.pdb" % i)
            open(inp, "w").write(text)
            jf, of = os.path.join(d, "job.json"), os.path.join(d, "out_%d_%s.json" % (i, len(refs)))
            json.dump({"input": inp, "optargs": opt, "mode": "stream"}, open(jf, "w"))
            subprocess.run([PY, "-m", "props.c03", "--ref", jf, of], cwd=ROOT)
            refs[(i, oname)] = open(of).read() if os.path.exists(of) else None
        got = run_record(text, opt, "path" if how == "path" else "stream", d)
        if got != refs[(i, oname)]:
            v.append({"clause": "run==fresh-interpreter-reference", "detail": "step %r: %s" % (
                step, first_diff(got, refs[(i, oname)]))})
            break
    return v


if __name__ == "__main__":
    if sys.argv[1] == "--ref":
        ref_job(sys.argv[2:])
    elif sys.argv[1] == "--worker":
        worker(sys.argv[2:])
