"""C05 - parts of a structure beyond interaction range do not influence each other.

Oracle: the records of the union restricted to one part's file positions equal the records of that part run alone at
the same coordinates (1e-9, counts exact); no separation that fits the coordinate field raises an error.
"""
from hypothesis import strategies as st

from vlib import gen, observe, pdbio, common
from vlib.pdbio import Atom

PROPERTY = "C05"
REDUCE_KEYS = ["part_a", "part_b"]
LEVEL = "exploration"
RULE = ("pairs (A, B) of generated structures (B independent or a copy of A, incl. ligands/ions, the copy keeping A's "
        "chain ids with shifted residue numbers or getting fresh chain ids; in one case of six a residue of A, B or "
        "both carries alternate locations and all chains are numbered from one start) x B moved by an exact grid motion so that "
        "the bounding boxes are separated by a drawn gap along a drawn axis (25.001-30 A, 30-100 A, 100-999 A, "
        "1000-1500 A, up to the limit of the coordinate field with A pushed to the opposite corner) x both file "
        "orders; parts are separated by a TER record; every library ligand / ion alone as a part at 25-39 A from a "
        "protein fragment; drawn parameter files; encounter complexes of two corpus chains whose iterative scheme does "
        "not converge (poses stored as parameters, rebuilt from the corpus) next to corpus parts that converge after "
        "different numbers of iterations. Non-trivial: both parts own >= 1 reported group with a "
        "determinant; distinct by hash of the union text.")
ASSUMPTIONS = ["bounding-box gap >= 25.001 A along one axis, hence >= 25 A between nearest atoms (the statement's "
               "sufficient condition); tighter separations are not claimed"]

BANDS = ["25-30", "25-30", "30-100", "100-999", "1000-1500", "1000-1500", "field-limit", "field-limit"]


def strip_end(entries):
    return [e for e in entries if isinstance(e, Atom) or not e.startswith(("END", "MASTER"))]


def ensure_ter(entries, allow_open_hetero=False):
    """Terminate the part.  If it ends with a hetero block whose preceding protein chain is already terminated (TER
    record or terminal oxygen), the trailing TER may be left out: hetero records never start or end a chain."""
    ents = list(entries)
    last = next((e for e in reversed(ents)), None)
    if isinstance(last, Atom):
        if allow_open_hetero and last.rec == "HETATM":
            k = len(ents) - 1
            while k >= 0 and isinstance(ents[k], Atom) and ents[k].rec == "HETATM":
                k -= 1
            prev = ents[k] if k >= 0 else None
            if prev is None or (isinstance(prev, str) and prev.startswith("TER")):
                return ents
        ents.append(gen.ter_line(last))
    return ents


def check_case(case):
    ta, tb = case["part_a"], case["part_b"]
    union = ta + tb if case["order"] == "AB" else tb + ta
    opt = []
    if case.get("cfgspec"):
        from vlib import cfgs
        opt = cfgs.options(case["cfgspec"])
    ru = observe.run(union, opt, name="a")
    v = []
    labels = ["order:" + case["order"], "band:" + case.get("band", "?")] + (["parameter-variant"] if opt else [])
    if ru["error"]:
        ra = observe.run(ta, opt, name="a")
        rb = observe.run(tb, opt, name="a")
        if not ra["error"] and not rb["error"]:
            return [{"clause": "union-runs-without-error", "detail": "union: %r" % (ru["error"],)}], {"labels": labels}
        # a part that fails where it stands but runs next to the origin fails because of its position only
        for part, text, r in (("A", ta, ra), ("B", tb, rb)):
            if not r["error"]:
                continue
            ents = pdbio.parse(text)
            lo = pdbio.bbox(ents)[0]
            home = pdbio.write(pdbio.move(ents, pdbio.ROTATIONS[0], tuple(-x for x in lo)))
            rh = observe.run(home, opt, name="a")
            if not rh["error"]:
                return [{"clause": "position-raises", "detail": "part %s runs next to the origin but raises where it "
                         "stands (bounding box from %r): %r" % (part, lo, r["error"])}], {"labels": labels}
        return [], {"labels": labels + ["part-error"]}
    nontrivial = True
    for part, text in (("A", ta), ("B", tb)):
        rp = observe.run(text, opt, name="a")
        if rp["error"]:
            v.append({"clause": "part-alone-runs", "detail": "part %s alone: %r but union ran" % (part, rp["error"])})
            continue
        km = common.xyz_keymap(text, union)           # part index -> union index
        uatoms = pdbio.atoms_of(pdbio.parse(union))
        patoms = {a.xyz for a in pdbio.atoms_of(pdbio.parse(text))}
        inpart = {i for i, a in enumerate(uatoms) if a.xyz in patoms}
        # restrict the union record to this part
        sub = {"error": None, "confs": {}}
        for c, conf in ru["confs"].items():
            sub["confs"][c] = {"groups": [g for g in conf["groups"] if g["key"] in inpart]}
        diffs = []
        single = [c for c in rp["confs"] if c != "AVR"]
        for c in sorted(sub["confs"]):
            # a part with one conformation must show its results in every conformation of the union
            tgt = c if c in rp["confs"] else (single[0] if len(single) == 1 else None)
            if tgt is None:
                diffs.append({"conf": c, "key": None, "label": None, "diffs": ["conformation only in the union"]})
                continue
            diffs += observe.compare_records({"error": None, "confs": {c: sub["confs"][c]}},
                                             {"error": None, "confs": {c: rp["confs"][tgt]}}, tol=1e-9, keymap=km)
        for c in rp["confs"]:
            if c not in sub["confs"]:
                diffs.append({"conf": c, "key": None, "label": None, "diffs": ["conformation only in the part alone"]})
        if diffs:
            v.append({"clause": "part-in-union==part-alone", "detail": "part %s: %s" % (part, common.fmt_diffs(diffs)),
                      "sig": common.twin_sig(union, [d["key"] for d in diffs])})
        if common.interaction_stats(rp)["with_dets"] < 1:
            nontrivial = False
    return v, {"labels": labels, "nontrivial": nontrivial}


def replay(case):
    return check_case(case)[0]


@st.composite
def pair_cases(draw, quick):
    sa = draw(gen.structures(max_res=22 if quick else 45, max_atoms=700))
    mode = draw(st.sampled_from(["independent", "independent", "copy-same-chains", "copy-new-chains"]))
    if mode == "independent":
        sb = draw(gen.structures(max_res=22 if quick else 45, max_atoms=700))
        eb = [e.copy() if isinstance(e, Atom) else e for e in sb.entries]
    else:
        eb = [e.copy() if isinstance(e, Atom) else e for e in sa.entries]
    open_het = draw(st.booleans())
    ea = ensure_ter(strip_end([e.copy() if isinstance(e, Atom) else e for e in sa.entries]), open_het)
    eb = ensure_ter(strip_end(eb), open_het)
    # residue identifiers of B must not collide with A's
    ids_a = {(a.chain, a.resnum, a.icode) for a in pdbio.atoms_of(ea)}
    chains_a = {a.chain for a in pdbio.atoms_of(ea)}
    if mode == "copy-same-chains":
        lo = min(a.resnum for a in pdbio.atoms_of(eb))
        hi = max(a.resnum for a in pdbio.atoms_of(eb))
        shift = (hi - lo) + draw(st.sampled_from([1, 50, 300, 1000]))
        if hi + shift > 9999:
            shift = -(hi - lo) - 50
        for a in pdbio.atoms_of(eb):
            a.resnum += shift
        if any(not -999 <= a.resnum <= 9999 for a in pdbio.atoms_of(eb)):
            mode = "copy-new-chains"
            for a in pdbio.atoms_of(eb):
                a.resnum -= shift
    if mode != "copy-same-chains":
        pool = [c for c in "PQRSTUVWpqrstuvw56789" if c not in chains_a]
        ren = {}
        for a in pdbio.atoms_of(eb):
            if (a.chain, a.resnum, a.icode) in ids_a or a.chain in chains_a or a.chain in ren:
                if a.chain not in ren:
                    ren[a.chain] = pool[len(ren) % len(pool)]
        for a in pdbio.atoms_of(eb):
            a.chain = ren.get(a.chain, a.chain)
    # two conformations: a residue of A, of B or of both carries alternate locations, and the chains of both parts are
    # numbered from the same start, so that residue numbers of the two parts overlap
    if mode != "copy-same-chains" and draw(st.integers(0, 5)) == 0:
        which = draw(st.sampled_from(["A", "B", "AB"]))
        start = draw(st.sampled_from([1, 1, 2, -5]))
        ea, ca = gen.with_alternate_location(ea, draw(st.integers(0, 60)), renumber_from=start, add="A" in which)
        eb, cb = gen.with_alternate_location(eb, draw(st.integers(0, 60)), renumber_from=start, add="B" in which)
        if ca or cb:
            mode += "+alt-loc"
    # motion of B: rotation + placement with a bounding-box gap along one axis
    rot = pdbio.ROTATIONS[draw(st.integers(0, 23))]
    eb = pdbio.move(eb, rot, (0, 0, 0))
    band = draw(st.sampled_from(BANDS))
    axis = draw(st.integers(0, 2))
    sign = draw(st.sampled_from([1, -1]))
    (a0, a1), (b0, b1) = pdbio.bbox(ea), pdbio.bbox(eb)
    ta = [0, 0, 0]
    lo_lim, hi_lim = pdbio.COORD_MIN + 2000, pdbio.COORD_MAX - 2000
    if band == "25-30":
        gap = draw(st.integers(25001, 30000))
    elif band == "30-100":
        gap = draw(st.integers(30000, 100000))
    elif band == "100-999":
        gap = draw(st.integers(100000, 999000))
    elif band == "1000-1500":
        gap = draw(st.integers(999900, 1500000))
    else:
        gap = None
    if gap is None or gap > 600000:
        # push A to one end of the field along the axis so that the gap fits
        ta[axis] = (lo_lim - a0[axis]) if sign > 0 else (hi_lim - a1[axis])
    ea = pdbio.move(ea, pdbio.ROTATIONS[0], tuple(ta))
    a0, a1 = pdbio.bbox(ea)
    tb = [0, 0, 0]
    for i in range(3):
        if i != axis:
            tb[i] = a0[i] - b0[i] + draw(st.integers(-3000, 3000))      # roughly aligned on the other axes
            tb[i] = max(lo_lim - b0[i], min(hi_lim - b1[i], tb[i]))
    if gap is None:
        tb[axis] = (hi_lim - b1[axis]) if sign > 0 else (lo_lim - b0[axis])
    else:
        tb[axis] = (a1[axis] + gap - b0[axis]) if sign > 0 else (a0[axis] - gap - b1[axis])
        if not (lo_lim <= b0[axis] + tb[axis] and b1[axis] + tb[axis] <= hi_lim):
            sign = -sign
            tb[axis] = (a1[axis] + gap - b0[axis]) if sign > 0 else (a0[axis] - gap - b1[axis])
    eb = pdbio.move(eb, pdbio.ROTATIONS[0], tuple(tb))
    b0, b1 = pdbio.bbox(eb)
    ok = all(lo_lim - 1 <= v <= hi_lim + 1 for v in b0 + b1 + a0 + a1)
    real_gap = max(b0[axis] - a1[axis], a0[axis] - b1[axis])
    ok = ok and real_gap >= 25001
    order = draw(st.sampled_from(["AB", "BA"]))
    spec = None
    if draw(st.integers(0, 4)) == 0:
        # other switches and cut-offs of the parameter file; runs with different files alternate within one process
        spec = {"changes": draw(st.sampled_from([
            {"common_charge_centre": "1"}, {"common_charge_centre": "1", "shared_determinants": "1"},
            {"desolv_cutoff": "24.0", "buried_cutoff": "18.0"}, {"coulomb_cutoff2": "14.0"}]))}
    return sa, pdbio.write(ea), pdbio.write(eb), order, band, mode, real_gap, ok, spec


def run_shard(ctx):
    quick = ctx.tier == "quick"

    def body(t):
        sa, ta, tb, order, band, mode, gap, ok, spec = t
        if not ok:
            ctx.labels["skipped:does-not-fit"] += 1
            return
        case = {"part_a": ta, "part_b": tb, "order": order, "band": band, "cfgspec": spec}
        v, info = check_case(case)
        info["labels"] = info.get("labels", []) + ["mode:" + mode]
        info["sample"] = {"part_a": sa.summary(), "mode": mode, "gap_A": gap / 1000.0, "order": order,
                          "part_b_head": tb[:162]}
        ctx.account(case, v, info)

    ctx.hypothesis_stage("separated-pairs", pair_cases(quick), body, 1600 if quick else 25000)

    # regression witnesses of fixed finding F4: a corpus structure and its own copy 1100 A / 10900 A apart
    if ctx.shard == 0:
        ents = strip_end(pdbio.parse(gen.corpus_text("1FTJ-Chain-A")))
        ents = ensure_ter([e for e in ents if isinstance(e, Atom) and e.resnum < 60])
        items = []
        for shift, band in ((1100000, "1000-1500"), (10850000, "field-limit")):
            ea = pdbio.move(ents, pdbio.ROTATIONS[0], (pdbio.COORD_MIN + 2000 - pdbio.bbox(ents)[0][0], 0, 0))
            eb = pdbio.move(ea, pdbio.ROTATIONS[0], (shift, 0, 0))
            for a in pdbio.atoms_of(eb):
                a.chain = "B"
            items.append({"part_a": pdbio.write(ea), "part_b": pdbio.write(eb), "order": "AB", "band": band})

        import json
        import os
        w = json.load(open(os.path.join(os.path.dirname(os.path.dirname(os.path.abspath(__file__))), "witnesses",
                                        "F24_ligand_copies_penalised_by_label.json")))["case"]
        items.append(w)

        def one(c):
            v, info = check_case(c)
            info["sample"] = {"part_a": "corpus 1FTJ-Chain-A residues < 60", "mode": "copy-new-chains",
                              "band": c["band"]} if c is not w else {
                                  "witness": "fixed finding F24: two copies of a ligand in one chain, 1300 A apart"}
            ctx.account(c, v, info)
        ctx.loop_stage("F4-regression", items, one)

    # the reference file with one coupled ligand per chain, split into its chains 300 A apart, under the common charge
    # centre / sharing switches
    if True:
        ents = [e for e in pdbio.parse(gen.corpus_text("4DFR")) if isinstance(e, Atom) and e.resn != "HOH"]
        pa = ensure_ter([e for e in ents if e.chain == "A"])
        pb = ensure_ter(pdbio.move([e for e in ents if e.chain == "B"], pdbio.ROTATIONS[0], (300000, 0, 0)))
        items = []
        for changes in ({"common_charge_centre": "1"}, {"common_charge_centre": "1", "shared_determinants": "1"},
                        {"shared_determinants": "1", "remove_penalised_group": "0"}):
            for order in ("AB", "BA"):
                items.append({"part_a": pdbio.write(pa), "part_b": pdbio.write(pb), "order": order, "band": "100-999",
                              "cfgspec": {"changes": changes}})

        def two(c):
            v, info = check_case(c)
            info["sample"] = {"part_a": "corpus 4DFR chain A + MTX", "part_b": "chain B + MTX, 300 A away",
                              "cfgspec": c["cfgspec"], "order": c["order"]}
            ctx.account(c, v, info)
        ctx.loop_stage("coupled-ligand-per-part", [items[i] for i in ctx.my_slice(len(items))], two)

    # every library ligand and ion as a part of its own, just beyond the range, next to a protein fragment: each group
    # type then meets protein backbone and side chains at 25-40 A
    if True:
        frag = ensure_ter([e for e in strip_end(pdbio.parse(gen.corpus_text("1FTJ-Chain-A")))
                           if isinstance(e, Atom) and e.resnum < 60])
        (a0, a1) = pdbio.bbox(frag)
        names = sorted(gen.LIGANDS) + sorted(gen.IONS)
        combos = [(n, gap, order) for n in names for gap in (25001, 27500, 33000, 39000) for order in ("AB", "BA")]
        mine = [combos[i] for i in ctx.my_slice(len(combos))]

        def lib(t):
            name, gap, order = t
            if name in gen.LIGANDS:
                resn, mol = gen.LIGANDS[name]["resn"], gen.LIGANDS[name]["atoms"]
            else:
                resn, mol = name, [(gen.IONS[name], 0, 0, 0)]
            het = gen.hetero_residue(resn, mol, "L", 700, pdbio.ROTATIONS[(gap // 500) % 24], (0, 0, 0))
            (b0, b1) = pdbio.bbox(het)
            # along x, level with the middle of the fragment in y and z
            shift = (a1[0] + gap - b0[0], (a0[1] + a1[1]) // 2 - b0[1], (a0[2] + a1[2]) // 2 - b0[2])
            het = pdbio.move(het, pdbio.ROTATIONS[0], shift)
            c = {"part_a": pdbio.write(frag), "part_b": pdbio.write(het), "order": order, "band": "25-40"}
            v, info = check_case(c)
            info["nontrivial"] = True
            info["labels"] = info.get("labels", []) + ["library-part:" + name]
            info["sample"] = {"part_a": "corpus 1FTJ-Chain-A residues < 60", "part_b": "library " + name,
                              "gap_A": gap / 1000.0, "order": order}
            ctx.account(c, v, info)
        ctx.loop_stage("library-molecule-as-a-part", mine, lib)

    # a part whose iterative scheme never settles ("did not converge in 10 iterations"): what it reports must not
    # depend on how long the clusters of the other part need.  The poses (two corpus chains, one turned and placed
    # against the other) come from an offline search; each is rebuilt here and probed for the message.
    if True:
        import json
        import os
        from vlib import dock
        root = os.path.dirname(os.path.dirname(os.path.abspath(__file__)))
        poses = json.load(open(os.path.join(root, "witnesses", "nonconverging_poses.json")))

        def corpus_part(name, keep):
            ents = [e for e in strip_end(pdbio.parse(gen.corpus_text(name)))
                    if isinstance(e, str) and e.startswith("TER") or isinstance(e, Atom) and e.rec == "ATOM"
                    and e.alt in (" ", "A") and e.model == 1 and keep(e)]
            return ensure_ter(ents)

        def others(i):
            return [("corpus 3SGB (both chains)", lambda: corpus_part("3SGB", lambda a: True)),
                    ("corpus 1HPX chain B", lambda: corpus_part("1HPX", lambda a: a.chain == "B")),
                    ("corpus 1FTJ-Chain-A residues < 60", lambda: corpus_part("1FTJ-Chain-A", lambda a: a.resnum < 60)),
                    ("corpus 4DFR chain A", lambda: corpus_part("4DFR", lambda a: a.chain == "A")),
                    ("pose %d" % ((i + 1) % len(poses)), lambda: dock.pose(poses[(i + 1) % len(poses)]))]

        combos = []
        for i in range(len(poses)):
            picks = [i % 5, (i + 2) % 5] if quick else range(5)
            for k in picks:
                for order in ("AB", "BA"):
                    combos.append((i, k, order))
        mine = [combos[j] for j in ctx.my_slice(len(combos))]

        def osc(t):
            i, k, order = t
            pa = dock.pose(poses[i], chains=("P", "Q"))
            desc, build = others(i)[k]
            pb = [e.copy() if isinstance(e, Atom) else e for e in build()]
            seen = {}
            for a in pdbio.atoms_of(pb):               # chain ids of their own
                a.chain = seen.setdefault(a.chain, "WXYZ"[len(seen) % 4])
            pb = [gen.ter_line(pb[j - 1]) if isinstance(e, str) and j and isinstance(pb[j - 1], Atom) else e
                  for j, e in enumerate(pb)]
            gap = 300000 + 1000 * ((7 * i + 3 * k) % 40)
            pb = pdbio.move(pb, pdbio.ROTATIONS[0], (pdbio.bbox(pa)[1][0] + gap - pdbio.bbox(pb)[0][0], 0, 0))
            ta, tb = pdbio.write(pa), pdbio.write(pb)
            hits = dock.nonconverging(ta)
            c = {"part_a": ta, "part_b": tb, "order": order, "band": "100-999"}
            v, info = check_case(c)
            info["nontrivial"] = bool(info.get("nontrivial")) and hits > 0
            info["labels"] = info.get("labels", []) + ["part-A-did-not-converge" if hits else "part-A-converged"]
            info["sample"] = {"part_a": "pose %d: %s chain %s against %s chain %s" % (
                i, poses[i]["a"][0], poses[i]["a"][1], poses[i]["b"][0], poses[i]["b"][1]), "part_b": desc,
                "gap_A": gap / 1000.0, "order": order, "did_not_converge_messages": hits}
            ctx.account(c, v, info)
        ctx.loop_stage("non-converging-part", mine, osc)
