"""C11 - covalent bonds are exactly those the pairwise distance rule gives.

Oracle: an O(n^2) reference (vlib.refs.ref_bonded: exact integer arithmetic on milli-Angstrom coordinates,
independent constants) and the code's own pair predicate evaluated on every ordered pair; bond lists must be
symmetric, free of self-bonds and duplicates, independent of the order of the atom list; both sulfurs of every S-S
pair within 2.5 A - and no other atom - carry the bridge flag; end to end a bridged cysteine is reported as 99.99.
"""
import itertools

from hypothesis import strategies as st

from vlib import gen, pdbio, refs
from props import c01

PROPERTY = "C11"
LEVEL = "exploration"
RULE = ("atom sets handed directly to BondMaker.find_bonds_for_atoms_using_boxes: (a) clouds of 2-60 atoms of drawn "
        "elements (C N O S H F P Cl Zn Se Br) in boxes of 3-30 A anywhere in the coordinate field incl. negative "
        "coordinates; (b) a pair at a drawn distance around each bonding threshold placed relative to the 2.51 A cell "
        "lattice so that the partner falls into each of the 26 neighbouring cells, incl. atoms exactly on cell faces, "
        "edges and corners, plus bystander atoms; every case is also run with a drawn permutation of the list; "
        "(c) end to end: two cysteines at S-S distances 1.9-2.7 A inside a peptide. Non-trivial: >= 1 reference bond "
        "between atoms in different cells; distinct by hash of the atom list.")
ASSUMPTIONS = ["pairs whose squared distance equals a threshold exactly (integer arithmetic) are excluded as ties",
               "F-F pairs bond below 2.0 A like every other heavy pair (the 1.7 A entry of the code is shadowed by the "
               "default rule; the reference follows the code here)"]

ELEMENTS = ["C", "C", "C", "N", "O", "O", "S", "S", "H", "H", "F", "P", "Cl", "Zn", "Se", "Br"]
CELL = 2510


def make_atoms(spec, numb_mode=0):
    from propka.atom import Atom
    out = []
    for i, (el, x, y, z) in enumerate(spec):
        a = Atom()
        a.element = el
        a.name = el.upper() + str(i)
        a.x, a.y, a.z = x / 1000.0, y / 1000.0, z / 1000.0
        # serial numbers are labels: unique, all equal, or repeated in pairs
        a.numb = i if numb_mode == 0 else 0 if numb_mode == 1 else i // 2
        a.res_num = i
        out.append(a)
    return out


def run_bonds(spec, order, numb_mode=0):
    from propka.bonds import BondMaker
    bm = run_bonds.bm
    if bm is None:
        bm = run_bonds.bm = BondMaker()
    atoms = make_atoms(spec, numb_mode)
    bm.find_bonds_for_atoms_using_boxes([atoms[i] for i in order])
    return atoms, bm


run_bonds.bm = None


def cell_of(xyz):
    return tuple(c // CELL for c in xyz)


def check_case(case):
    spec = [tuple(a) for a in case["atoms"]]
    n = len(spec)
    v = []
    # reference
    ref = set()
    tie = False
    cross = 0
    dirs = set()
    for i in range(n):
        for j in range(i + 1, n):
            b, t = refs.ref_bonded(spec[i][0], spec[i][1:], spec[j][0], spec[j][1:])
            tie = tie or t
            if b:
                ref.add((i, j))
                ci, cj = cell_of(spec[i][1:]), cell_of(spec[j][1:])
                if ci != cj:
                    cross += 1
                    d = tuple(max(-1, min(1, b2 - a2)) for a2, b2 in zip(ci, cj))
                    dirs.add(d)
                    dirs.add(tuple(-x for x in d))
    if tie:
        return [], {"labels": ["threshold-tie"]}
    orders = [list(range(n))] + [list(o) for o in case.get("orders", [])]
    results = []
    for order in orders:
        try:
            atoms, bm = run_bonds(spec, order, len(spec) % 3)
        except Exception as e:
            return [{"clause": "no-exception", "detail": "%s: %s" % (type(e).__name__, e)}], {}
        idx = {id(a): i for i, a in enumerate(atoms)}
        got = set()
        for i, a in enumerate(atoms):
            seen = set()
            for b in a.bonded_atoms:
                j = idx[id(b)]
                if j == i:
                    v.append({"clause": "no-self-bond", "detail": "atom %d bonded to itself" % i})
                if j in seen:
                    v.append({"clause": "no-duplicate", "detail": "atom %d lists atom %d twice" % (i, j)})
                seen.add(j)
                if a not in b.bonded_atoms:
                    v.append({"clause": "symmetric", "detail": "atom %d lists %d but not vice versa" % (i, j)})
                got.add((min(i, j), max(i, j)))
        if got != ref:
            v.append({"clause": "bonds==pairwise-rule", "detail": "missing %r, unexpected %r (order %r...)" % (
                [(p, spec[p[0]], spec[p[1]]) for p in sorted(ref - got)[:2]],
                [(p, spec[p[0]], spec[p[1]]) for p in sorted(got - ref)[:2]], order[:6])})
        # bridge flags
        want_flag = set()
        for (i, j) in ref:
            if spec[i][0] == "S" and spec[j][0] == "S":
                want_flag.update((i, j))
        got_flag = {i for i, a in enumerate(atoms) if a.cysteine_bridge}
        if want_flag != got_flag:
            v.append({"clause": "disulfide-flag", "detail": "flagged %r, expected %r" % (sorted(got_flag),
                                                                                         sorted(want_flag))})
        results.append(got)
        if v:
            break
    if not v:
        # the code's own predicate on every ordered pair: symmetric and equal to the reference
        atoms = make_atoms(spec)
        bm = run_bonds.bm
        for i in range(n):
            for j in range(n):
                if i == j:
                    continue
                c1 = bool(bm.check_distance(atoms[i], atoms[j]))
                want = (min(i, j), max(i, j)) in ref
                if c1 != want:
                    v.append({"clause": "pair-criterion", "detail": "check_distance(%r, %r) = %r, rule says %r" % (
                        spec[i], spec[j], c1, want)})
                    break
            if v:
                break
    labels = []
    if cross:
        labels.append("cross-cell-bond")
    labels += ["dir:%+d%+d%+d" % d for d in dirs]
    if any(c < 0 for a in spec for c in a[1:]):
        labels.append("negative-coordinates")
    return v, {"labels": labels, "nontrivial": cross > 0}


def replay(case):
    if case.get("kind") == "cys-pair":
        return c01.check_case({"pdb": case["pdb"], "optargs": []})[0]
    return check_case(case)[0]


def run_shard(ctx):
    quick = ctx.tier == "quick"

    @st.composite
    def clouds(draw):
        n = draw(st.integers(2, 60 if not quick else 40))
        size = draw(st.sampled_from([3000, 5000, 8000, 15000, 30000]))
        ox = draw(st.integers(pdbio.COORD_MIN, pdbio.COORD_MAX - size))
        oy = draw(st.integers(pdbio.COORD_MIN, pdbio.COORD_MAX - size))
        oz = draw(st.sampled_from([0, -size // 2, -5020, 2510 * 7, pdbio.COORD_MIN, pdbio.COORD_MAX - size]))
        spec = []
        seen = set()
        for _ in range(n):
            p = (ox + draw(st.integers(0, size)), oy + draw(st.integers(0, size)), oz + draw(st.integers(0, size)))
            if p in seen:
                continue
            seen.add(p)
            spec.append((draw(st.sampled_from(ELEMENTS)),) + p)
        perm = draw(st.permutations(list(range(len(spec)))))
        return spec, [list(perm)]

    @st.composite
    def lattice_pairs(draw):
        d = draw(st.sampled_from([x for x in itertools.product((-1, 0, 1), repeat=3) if any(x)]))
        cell = [draw(st.integers(-398, 3980)) for _ in range(3)]
        e1, e2 = draw(st.sampled_from([("C", "C"), ("C", "N"), ("S", "S"), ("S", "S"), ("S", "C"), ("C", "S"),
                                       ("N", "H"), ("H", "O"), ("H", "H"), ("F", "F"), ("Zn", "S"), ("S", "Zn"),
                                       ("P", "O"), ("C", "Cl")]))
        thr = {2: None, 1: 1500}.get((e1 == "H") + (e2 == "H"), 2500 if (e1, e2) == ("S", "S") else 2000)
        # target distance around the threshold (or a typical bond length)
        dist = draw(st.sampled_from([900, 1090, 1330, 1499, 1501, 1520, 1810, 1999, 2001, 2040, 2100, 2300, 2499,
                                     2501, 2600]))
        eps = [draw(st.sampled_from([0, 0, 1, 2, 50, 300])) for _ in range(3)]
        p1, step = [], []
        nonzero = sum(1 for c in d if c)
        comp = int(dist / (nonzero ** 0.5))
        for k in range(3):
            base = cell[k] * CELL
            if d[k] > 0:
                p1.append(base + CELL - 1 - eps[k])
                step.append(comp)
            elif d[k] < 0:
                p1.append(base + eps[k])
                step.append(-comp)
            else:
                off = draw(st.integers(0, CELL - 1))
                p1.append(base + off)
                step.append(0)
        p2 = [a + b for a, b in zip(p1, step)]
        if draw(st.booleans()):
            # put the partner exactly on the cell boundary along one moving axis
            ks = [k for k in range(3) if d[k]]
            k = ks[draw(st.integers(0, len(ks) - 1))]
            p2[k] = (cell[k] + (1 if d[k] > 0 else 0)) * CELL
        spec = [(e1,) + tuple(p1), (e2,) + tuple(p2)]
        for _ in range(draw(st.integers(0, 6))):
            q = tuple(a + draw(st.integers(-4000, 4000)) for a in p1)
            if q not in [s[1:] for s in spec]:
                spec.append((draw(st.sampled_from(ELEMENTS)),) + q)
        ok = all(pdbio.COORD_MIN <= c <= pdbio.COORD_MAX for s in spec for c in s[1:])
        perm = draw(st.permutations(list(range(len(spec)))))
        return (spec, [list(perm)]) if ok else (spec[:0], [])

    def body(t):
        spec, orders = t
        if len(spec) < 2:
            return
        case = {"atoms": [list(a) for a in spec], "orders": orders}
        v, info = check_case(case)
        info["sample"] = {"atoms": [list(a) for a in spec[:6]], "n_atoms": len(spec), "permutation": orders[0][:8]}
        ctx.account(case, v, info)

    ctx.hypothesis_stage("clouds", clouds(), body, 12000 if quick else 250000)
    ctx.hypothesis_stage("lattice-pairs", lattice_pairs(), body, 24000 if quick else 400000)

    # ---- end to end: two cysteines at drawn S-S distances, census (bridged <=> S-S < 2.5 A) via C01's oracle ----
    chains = gen.protein_chains("1FTJ-Chain-A")
    seg = chains[0][1][30:36]

    @st.composite
    def cys_pairs(draw):
        ress = [[a.copy() for a in r] for r in seg]
        i, j = 1, 4
        ress[i] = gen.mutate_residue(ress[i], "CYS", draw(st.integers(0, 10)))
        ress[j] = gen.mutate_residue(ress[j], "CYS", draw(st.integers(0, 10)))
        sg1 = next(a for a in ress[i] if a.aname == "SG")
        sg2 = next(a for a in ress[j] if a.aname == "SG")
        dist = draw(st.sampled_from([1900, 2040, 2100, 2300, 2450, 2499, 2501, 2550, 2700]))
        d = gen.DIRECTIONS[draw(st.integers(0, len(gen.DIRECTIONS) - 1))]
        nrm = sum(c * c for c in d) ** 0.5
        sg2.x, sg2.y, sg2.z = (sg1.x + int(d[0] * dist / nrm), sg1.y + int(d[1] * dist / nrm),
                               sg1.z + int(d[2] * dist / nrm))
        shift = [draw(st.integers(-3000, 3000)) for _ in range(3)]
        if draw(st.booleans()):
            # the two cysteines in different chains, carrying the same residue number
            n1 = ress[i][0].resnum
            off = n1 - ress[j][0].resnum
            for r in ress[3:]:
                for a in r:
                    a.chain, a.resnum = "B", a.resnum + off
            ress[2].append(gen.make_oxt(ress[2]) or ress[2][-1])
            ress[2] = [a for k, a in enumerate(ress[2]) if a not in ress[2][:k]]
        entries = [a for r in ress for a in r]
        entries = pdbio.move(entries, pdbio.ROTATIONS[draw(st.integers(0, 23))], tuple(shift))
        pdbio.renumber_serials(entries)
        return pdbio.write(entries + [gen.ter_line(entries[-1])]), dist

    def cys_body(t):
        text, dist = t
        case = {"kind": "cys-pair", "pdb": text}
        v, _i = c01.check_case({"pdb": text, "optargs": []})
        v = [x for x in v if x["clause"] in ("bridged-cys", "titratable-flag", "census-bijection", "runs")]
        ctx.account(case, v, {"nontrivial": True, "labels": ["cys-pair:%d" % dist],
                              "sample": {"two CYS, S-S distance (mA)": dist, "head": text[:160]}})

    ctx.hypothesis_stage("cysteine-pairs-end-to-end", cys_pairs(), cys_body, 600 if quick else 8000)
