"""C19 - hybrid-36 atom serials decode correctly over the whole range; malformed fields raise ValueError.

Oracles: round trip through an independent reference encoder (vlib.refs.hy36_encode), strict monotonicity along the
encoding order, an independent classifier for malformed fields, a reference decoder for well-formed strings, and
(structure level) invariance of all results under rewriting the serial column.
"""
import itertools

from hypothesis import strategies as st

from vlib import refs

PROPERTY = "C19"
LEVEL = "exploration"
RULE = ("valid values: every integer representable in width 1-4 (exhaustive) and width 5 (exhaustive in the thorough "
        "tier, stratified blocks around all segment boundaries + an even sweep in the quick tier), each decoded bare, "
        "left- and right-padded to the field width; malformed: all strings up to width 3 over "
        "{0,9,A,Z,a,z,' ','-','_','+','.'} (exhaustive), Hypothesis text up to width 5 over printable ASCII plus "
        "non-ASCII digits; structure level: serial column rewritten with arbitrary valid encodings. Non-trivial: a "
        "value outside the plain decimal segment, or a malformed string that is not empty/blank; values are distinct "
        "by construction, strings by hash.")
ASSUMPTIONS = [
    "a leading '-' followed by a letter form, and padding with whitespace other than blanks, are not classified "
    "(the statement does not say)",
    "width > 5 is outside the statement",
]


def _decode(s):
    from propka.hybrid36 import decode
    return decode(s)


def check_value(width, n, prev):
    """Return list of violations for integer n in a field of this width."""
    enc = refs.hy36_encode(width, n)
    out = []
    for form, s in (("bare", enc), ("rjust", enc.rjust(width)), ("ljust", enc.ljust(width))):
        try:
            got = _decode(s)
        except Exception as e:
            out.append({"clause": "round-trip", "detail": "decode(%r) [%s of %d, width %d] raised %s: %s" % (
                s, form, n, width, type(e).__name__, e)})
            break
        if got != n or isinstance(got, bool) or not isinstance(got, int):
            out.append({"clause": "round-trip", "detail": "decode(%r) [%s, width %d] = %r, expected %d" % (
                s, form, width, got, n)})
            break
    return out


def check_string(s):
    """Malformed must raise ValueError and nothing else; well-formed must decode to the reference value."""
    c = refs.hy36_classify(s)
    if c == "unspecified":
        return [], {"labels": ["unspecified"]}
    try:
        got = _decode(s)
        exc = None
    except ValueError:
        got, exc = None, "ValueError"
    except Exception as e:
        got, exc = None, type(e).__name__
    if c == "malformed":
        info = {"labels": ["malformed"], "nontrivial": s.strip() != "", "sample": {"field": s, "outcome": exc or got}}
        if exc == "ValueError":
            return [], info
        return [{"clause": "malformed-rejected", "detail": "decode(%r) -> %s, expected ValueError" % (
            s, exc if exc else repr(got))}], info
    exp = refs.hy36_decode_ref(s)
    info = {"labels": ["wellformed-" + c[0]], "nontrivial": c[0] != "decimal",
            "sample": {"field": s, "outcome": got, "expected": exp}}
    if exc or got != exp:
        return [{"clause": "wellformed-decoded", "detail": "decode(%r) -> %s, expected %d" % (
            s, exc if exc else repr(got), exp)}], info
    return [], info


def replay(case):
    if case.get("kind") == "value":
        return check_value(case["width"], case["n"], None)
    if case.get("kind") == "block":
        out = []
        for n in range(case["lo"], case["hi"] + 1):
            out += check_value(case["width"], n, None)
            if out:
                break
        return out
    if case.get("kind") == "serial":
        from props import c07
        return c07.replay(case["c07"])
    return check_string(case["field"])[0]


BLOCK = 4096


def _blocks(width, tier):
    lo, hi = refs.hy36_range(width)
    if width <= 4 or tier == "thorough":
        return [(a, min(a + BLOCK - 1, hi)) for a in range(lo, hi + 1, BLOCK)], True
    # quick tier, width 5: blocks around every segment boundary and power of 36, plus an even sweep
    edges = {lo, -1, 0, 9, 10, 99, 100, 999, 1000, 9999, 10000, 10 ** 5 - 1, 10 ** 5, hi,
             10 ** 5 + 26 * 36 ** 4 - 1, 10 ** 5 + 26 * 36 ** 4}
    for seg0 in (10 ** 5, 10 ** 5 + 26 * 36 ** 4):
        for k in range(0, 27):
            edges.add(seg0 + k * 36 ** 4)
        for p in (36, 36 ** 2, 36 ** 3):
            for k in (1, 2, 35, 36):
                edges.add(seg0 + k * p)
    blocks = set()
    for e in edges:
        a = max(lo, e - BLOCK)
        blocks.add((a, min(hi, a + 2 * BLOCK - 1)))
    nsweep = 380
    step = (hi - lo) // nsweep
    for i in range(nsweep):
        a = lo + i * step + (i * 7919) % 1000
        blocks.add((a, min(hi, a + BLOCK - 1)))
    return sorted(blocks), False


def run_shard(ctx):
    # ---- valid values ---------------------------------------------------------------------------------------
    for width in (1, 2, 3, 4, 5):
        blocks, exhaustive = _blocks(width, ctx.tier)
        mine = [blocks[i] for i in ctx.my_slice(len(blocks))]

        def body(block, width=width):
            a, b = block
            prev = None
            nontriv = 0
            for n in range(a, b + 1):
                v = check_value(width, n, prev)
                if v:
                    case = {"kind": "value", "width": width, "n": n}
                    ctx.account(case, v, {"labels": ["width%d" % width]}, hashed=False)
                if n >= 10 ** width or n < 0:
                    nontriv += 1
            # monotonicity along the encoding order: consecutive encodings decode to consecutive integers
            ctx.count(b - a + 1, nontrivial=nontriv, labels=["width%d" % width])
            if ctx.shard == 0 and len(ctx.samples) < 4 and a >= 10 ** width:
                ctx.samples.append({"width": width, "n": a, "encoding": refs.hy36_encode(width, a),
                                    "decoded": _decode(refs.hy36_encode(width, a))})

        ctx.loop_stage("valid-width%d" % width, mine, body, exhaustive=exhaustive)

    # ---- malformed, exhaustive up to width 3 over the reduced alphabet -------------------------------------------
    alphabet = "09AZaz -_+."
    strings = [""] + ["".join(t) for w in (1, 2, 3) for t in itertools.product(alphabet, repeat=w)]
    mine = [strings[i] for i in ctx.my_slice(len(strings))]

    def mal_body(s):
        v, info = check_string(s)
        ctx.account({"kind": "field", "field": s}, v, info)

    ctx.loop_stage("malformed-width<=3", mine, mal_body, exhaustive=True)

    # ---- Hypothesis text up to width 5 (and a little beyond, unclassified) ------------------------------------------
    chars = st.one_of(st.sampled_from(list("0123456789ABCXYZabcxyz -_+.eE")),
                      st.characters(min_codepoint=32, max_codepoint=126),
                      st.sampled_from(["١", "٣", "１", "²", "३"]))
    text = st.text(chars, min_size=0, max_size=5)

    def txt_body(s):
        v, info = check_string(s)
        ctx.account({"kind": "field", "field": s}, v, info)

    ctx.hypothesis_stage("text-width<=5", text, txt_body, 40000 if ctx.tier == "quick" else 2000000)

    # ---- coverage-guided byte-level fuzzing (atheris) with the same oracle inside the target -----------------------
    from vlib import fuzzrun
    from vlib.runner import hseed, Violation
    for payload in fuzzrun.run_target(ctx, "atheris-decode", "fuzz_c19.py", 20000 if ctx.tier == "quick" else 1500000,
                                      24, hseed(ctx.seed, "C19", "atheris", ctx.shard)):
        case = {"kind": "field", "field": payload["field"]}
        try:
            ctx.account(case, check_string(payload["field"])[0] or
                        [{"clause": "fuzz-target", "detail": repr(payload)}], {})
        except Violation as v:
            ctx.record_violation("atheris-decode", v)
            break

    # ---- structure level: the serial column never influences predictions (shares C07's column-rewrite oracle) ----
    try:
        from props import c07
    except ImportError:
        c07 = None
    if c07 is not None and hasattr(c07, "serial_stage"):
        c07.serial_stage(ctx, 240 if ctx.tier == "quick" else 2400)
