"""C10 - folding free energy obeys proton linkage and is reported on the requested grid.

Oracles: (i) proton linkage - the reported dG profile must satisfy dG(p2) - dG(p0) = 1.36 * integral(Q_folded -
Q_unfolded) both in closed form from the record's pKa values (1e-9) and by Simpson's rule over the *reported* charge
curves (tolerance from the Simpson remainder), for both reference states; (ii) the pH values of both API profiles
and of the printed sections are exactly those of the requested grid / window incl. both end points; (iii) the
optimum is the first minimum of the profile and the 80 % / stability ranges are re-derived from it; the printed
lines agree.
"""
import math
import os

from hypothesis import strategies as st

from vlib import gen, observe, pdbio, common, refs, pkaparse
from props import c09

PROPERTY = "C10"
REDUCE_KEYS = ["pdb"]      # (cases of the several-molecules stage are saved unreduced)
LEVEL = "exploration"
RULE = ("generated structures with shifted pKa values x user grids -g min max step (steps 0.1-2 incl. decimal steps "
        "that do not accumulate exactly such as 0.7 and 0.3, negative minima, maxima above 14) x windows -w (inside, "
        "equal to, larger than the grid; steps 0.1 .. 3 incl. 0.25, 0.75, 1.25) x both reference states x parameter files with shifted "
        "model pKa values (run in one process after each other); histories in which 1-3 molecules (incl. multi-"
        "conformation inputs) are calculated before any profile or file is requested, then every conformation is "
        "queried twice and written with propka.output.write_pka(conformation=...). Non-trivial: predicted != model pKa for >= 1 acid "
        "and >= 1 base and the grid is not the default; distinct by hash of (input, grid, window, parameter variant).")
ASSUMPTIONS = [
    "Simpson consistency is asserted for steps <= 0.25 with tolerance 1.36 * n_groups * 30 * (2h)^5 / 2880 + 1e-6",
    "the printed folding section is asserted only where every reading of 'window' agrees: grid step >= 0.1, window "
    "minimum a multiple of the window step, window lattice points that are grid points",
]
SCALE = 1.36


def L(x):
    if x > 300:
        return x
    return math.log10(1.0 + 10.0 ** x)


def dg_ref(groups, ph, reference):
    """Closed-form folding energy from group records (titratable groups only)."""
    total = 0.0
    for g in groups:
        if not g["titratable"]:
            continue
        neutral = 0.0
        if reference == "neutral" and g["charge"] > 0:
            prime = g["pka"]
            for _k, _l, val in g["dets"]["coulomb"]:
                if val > 0:
                    prime -= val
            neutral = -SCALE * (prime - g["model_pka"])
        total += neutral - SCALE * (L(ph - g["pka"]) - L(ph - g["model_pka"]))
    return total


def shifted_cfg(shift):
    path = os.path.abspath("shifted_%s.cfg" % ("%+.2f" % shift).replace(".", "_"))
    if not os.path.exists(path):
        src = os.path.join(os.environ.get("VERIF_REPO", "/repo"), "propka", "propka.cfg")
        out = []
        for line in open(src):
            w = line.split()
            if len(w) >= 3 and w[0] == "model_pkas":
                out.append("model_pkas %s %.2f\n" % (w[1], float(w[2]) + shift))
            else:
                out.append(line)
        open(path, "w").writelines(out)
    return path


def check_case(case):
    text = case["pdb"]
    grid, window = tuple(case["grid"]), tuple(case["window"])
    opt = ["-g"] + [repr(x) for x in grid] + ["-w"] + [repr(x) for x in window]
    if case.get("shift"):
        opt += ["-p", shifted_cfg(case["shift"])]
    rec = observe.run(text, opt, name="a", keep_mol=True)
    if rec["error"]:
        return [], {"labels": ["error:" + rec["error"]["type"]]}
    mol = rec.pop("_mol")
    v = []
    groups = rec["confs"]["AVR"]["groups"]
    pts = c09.grid_points(grid)
    sites = c09.sites_of(rec["confs"]["AVR"])
    charge = mol.get_charge_profile(conformation="AVR", grid=grid)
    profs = {}
    for reference in ("neutral", "low-pH"):
        prof, opt_, r80, stab = mol.get_folding_profile(conformation="AVR", reference=reference, grid=grid)
        profs[reference] = prof
        # (ii) grid
        if len(prof) != len(pts) or any(abs(p[0] - q) > 1e-9 for p, q in zip(prof, pts)):
            v.append({"clause": "grid/folding-profile", "detail": "grid %r: pH values %r ... %r (%d), expected %r ... "
                      "%r (%d)" % (grid, [p[0] for p in prof[:2]], [p[0] for p in prof[-2:]], len(prof), pts[:2],
                                   pts[-2:], len(pts))})
            break
        # (i) closed form
        for ph, dg in prof:
            ref = dg_ref(groups, ph, reference)
            if abs(dg - ref) > 1e-9:
                v.append({"clause": "linkage/closed-form", "detail": "%s reference, pH %r: dG %r, closed form %r" % (
                    reference, ph, dg, ref)})
                break
        # (iii) optimum and ranges
        if prof:
            best = min(range(len(prof)), key=lambda i: (prof[i][1], i))
            if opt_[0] is None or abs(opt_[0] - prof[best][0]) > 1e-12 or opt_[1] != prof[best][1]:
                v.append({"clause": "optimum", "detail": "%s: reported %r, first minimum of the profile %r" % (
                    reference, opt_, prof[best])})
            within = [p[0] for p in prof if p[1] < 0.8 * prof[best][1]]
            want80 = (min(within), max(within)) if within else (None, None)
            stable = [p[0] for p in prof if p[1] < 0.0]
            wants = (min(stable), max(stable)) if stable else (None, None)
            if tuple(r80) != want80:
                v.append({"clause": "range-80", "detail": "%s: reported %r, re-derived %r" % (reference, r80, want80)})
            if tuple(stab) != wants:
                v.append({"clause": "stability-range", "detail": "%s: reported %r, re-derived %r" % (reference, stab,
                                                                                                    wants)})
    if len(charge) != len(pts) or any(abs(r[0] - q) > 1e-9 for r, q in zip(charge, pts)):
        v.append({"clause": "grid/charge-profile", "detail": "grid %r: %d rows, expected %d" % (grid, len(charge),
                                                                                             len(pts))})
    # (i) Simpson consistency of the two reported profiles
    h = grid[2]
    prof = profs.get("neutral")
    if not v and prof and h <= 0.25 and len(prof) == len(charge):
        n = sum(1 for g in groups if g["titratable"])
        tol = SCALE * n * 30.0 * (2 * h) ** 5 / 2880.0 + 1e-6
        for i in range(0, len(prof) - 2, 2):
            f0, f1, f2 = [charge[j][2] - charge[j][1] for j in (i, i + 1, i + 2)]
            integral = h / 3.0 * (f0 + 4 * f1 + f2)
            lhs = prof[i + 2][1] - prof[i][1]
            if abs(lhs - SCALE * integral) > tol:
                v.append({"clause": "linkage/reported-profiles", "detail": "pH %r..%r: dG difference %r, 1.36 * Simpson("
                          "Qf - Qu) = %r (tol %.2g)" % (prof[i][0], prof[i + 2][0], lhs, SCALE * integral, tol)})
                break
    # printed sections
    if not v and rec["pka_text"] is not None:
        parsed = pkaparse.parse(rec["pka_text"])
        prof = profs["neutral"]
        if len(parsed["charge"]) != len(pts):
            v.append({"clause": "printed/charge-grid", "detail": "%d rows printed for grid %r (%d points)" % (
                len(parsed["charge"]), grid, len(pts))})
        wmin, wmax, wstep = window
        aligned = (grid[2] >= 0.1 - 1e-12 and abs(wmin / wstep - round(wmin / wstep)) < 1e-9
                   and abs(wstep / grid[2] - round(wstep / grid[2])) < 1e-9
                   and abs((wmin - grid[0]) / grid[2] - round((wmin - grid[0]) / grid[2])) < 1e-9
                   and abs(grid[0] / grid[2] - round(grid[0] / grid[2])) < 1e-9 and wstep >= 0.1)
        if aligned:
            want = [p for p in prof if wmin - 1e-9 <= p[0] <= wmax + 1e-9
                    and abs(p[0] / wstep - round(p[0] / wstep)) < 1e-6]
            got = parsed["folding"]
            if len(got) != len(want) or any(not pkaparse.is_rounding_of(g[0], w[0], 2)
                                            or not pkaparse.is_rounding_of(g[1], w[1], 2) for g, w in zip(got, want)):
                v.append({"clause": "printed/folding-window", "detail": "window %r on grid %r: %d rows printed (%r ... "
                          "%r), %d expected (%r ... %r)" % (window, grid, len(got), [g[0] for g in got][:4],
                                                           [g[0] for g in got][-3:], len(want),
                                                           ["%.2f" % w[0] for w in want][:4],
                                                           ["%.2f" % w[0] for w in want][-3:])})
        best = min(range(len(prof)), key=lambda i: (prof[i][1], i)) if prof else None
        if best is not None:
            if not (isinstance(parsed["optimum"], tuple) and pkaparse.is_rounding_of(parsed["optimum"][0], prof[best][0], 1)
                    and pkaparse.is_rounding_of(parsed["optimum"][1], prof[best][1], 1)):
                v.append({"clause": "printed/optimum", "detail": "printed %r, profile minimum %r" % (parsed["optimum"],
                                                                                                 prof[best])})
            stable = [p[0] for p in prof if p[1] < 0.0]
            if stable:
                if not (isinstance(parsed["stability"], tuple)
                        and pkaparse.is_rounding_of(parsed["stability"][0], min(stable), 1)
                        and pkaparse.is_rounding_of(parsed["stability"][1], max(stable), 1)):
                    v.append({"clause": "printed/stability-range", "detail": "printed %r, re-derived %r-%r" % (
                        parsed["stability"], min(stable), max(stable))})
            elif parsed["stability"] is not None:
                v.append({"clause": "printed/stability-range", "detail": "printed %r but no grid point has dG < 0" % (
                    parsed["stability"],)})
            within = [p[0] for p in prof if p[1] < 0.8 * prof[best][1]]
            if within:
                if not (isinstance(parsed["range80"], tuple)
                        and pkaparse.is_rounding_of(parsed["range80"][0], min(within), 1)
                        and pkaparse.is_rounding_of(parsed["range80"][1], max(within), 1)):
                    v.append({"clause": "printed/80-percent-range", "detail": "printed %r, re-derived %r-%r" % (
                        parsed["range80"], min(within), max(within))})
    acids = any(q < 0 and abs(m - p) > 0.01 for q, m, p in sites)
    bases = any(q > 0 and abs(m - p) > 0.01 for q, m, p in sites)
    default = grid == (0.0, 14.0, 0.1) and window == (0.0, 14.0, 1.0)
    labels = ["step:%g" % grid[2], "wstep:%g" % window[2]] + (["model-shift"] if case.get("shift") else [])
    return v, {"labels": labels, "nontrivial": acids and bases and not default}


def several_case(case):
    """Several molecules calculated first, profiles and files requested afterwards; one file per conformation.

    Every profile must be the closed form of the pKa values of the molecule *and conformation* it is requested for; in
    a written file the folding rows and the charge rows must belong to the conformation that is written."""
    import propka.output
    recs = []
    for i, text in enumerate(case["pdbs"]):
        rec = observe.run(text, [], name="m%d" % i, keep_mol=True, write_pka=False)
        if rec["error"]:
            return [], {"labels": ["error:" + rec["error"]["type"]]}
        recs.append(rec)
    v = []
    grid = tuple(case["grid"])
    differ = False
    for rnd in range(2):                       # second round: repeated requests
        for i, rec in enumerate(recs):
            mol = rec["_mol"]
            for cname in rec["conf_names"] + ["AVR"]:
                groups = rec["confs"][cname]["groups"]
                for reference in ("neutral", "low-pH"):
                    prof = mol.get_folding_profile(conformation=cname, reference=reference, grid=grid)[0]
                    for ph, dg in prof:
                        ref = dg_ref(groups, ph, reference)
                        if abs(dg - ref) > 1e-9:
                            v.append({"clause": "linkage/closed-form", "detail": "molecule %d of %d, conformation %s, "
                                      "%s reference, request round %d, pH %r: dG %r, closed form of its own pKa values "
                                      "%r" % (i + 1, len(recs), cname, reference, rnd + 1, ph, dg, ref)})
                            break
                if rnd:
                    continue
                fn = "several_%d_%s.pka" % (i, cname)
                try:
                    propka.output.write_pka(mol, mol.version.parameters, filename=fn, conformation=cname, verbose=False)
                except Exception as e:
                    v.append({"clause": "write-conformation", "detail": "%s: %s: %s" % (cname, type(e).__name__, e)})
                    continue
                parsed = pkaparse.parse(open(fn).read())
                os.remove(fn)
                sites = c09.sites_of(rec["confs"][cname])
                if sites != c09.sites_of(rec["confs"]["AVR"]):
                    differ = True
                for ph, qu, qf in parsed["charge"]:
                    ph = float(ph)
                    wu, wf = c09.q_ref(sites, ph, False), c09.q_ref(sites, ph, True)
                    if not (pkaparse.is_rounding_of(qu, wu, 2) and pkaparse.is_rounding_of(qf, wf, 2)):
                        v.append({"clause": "printed/charge-of-written-conformation", "detail": "file for conformation "
                                  "%s of molecule %d, pH %r: printed (%r, %r), sums over its groups (%r, %r)" % (
                                      cname, i + 1, ph, qu, qf, wu, wf)})
                        break
                for ph, dg in parsed["folding"]:
                    ph = float(ph)
                    ref = dg_ref(groups, ph, "neutral")
                    if not pkaparse.is_rounding_of(dg, ref, 2):
                        v.append({"clause": "printed/folding-of-written-conformation", "detail": "file for conformation "
                                  "%s of molecule %d, pH %r: printed %r, closed form %r" % (cname, i + 1, ph, dg, ref)})
                        break
        if v:
            break
    for rec in recs:
        rec.pop("_mol", None)
    return v[:6], {"labels": ["several-molecules:%d" % len(recs)], "nontrivial": len(recs) > 1 or differ}


def replay(case):
    if case.get("kind") == "several":
        return several_case(case)[0]
    return check_case(case)[0]


def run_shard(ctx):
    quick = ctx.tier == "quick"

    @st.composite
    def cases(draw):
        s = draw(gen.structures(max_res=30 if quick else 60))
        step = draw(st.sampled_from([0.1, 0.1, 0.05, 0.25, 0.2, 0.3, 0.7, 0.5, 1.0, 2.0, 0.07, 0.15, 0.125, 0.025, 0.0625]))
        mn = draw(st.sampled_from([0.0, 0.0, 1.0, -2.0, 3.5, 7.0, -0.5, 0.005, 6.125]))
        span = draw(st.sampled_from([14.0, 14.0, 7.0, 1.0, 10.0, 16.0, 2.1]))
        grid = (mn, mn + span, step)
        wstep = draw(st.sampled_from([1.0, 1.0, 0.5, 2.0, 3.0, 0.1, 0.2, 0.25, 0.75, 1.25, 1.5]))
        wmin = draw(st.sampled_from([0.0, 0.0, mn, 2.0, -2.0, 4.0]))
        wmax = draw(st.sampled_from([14.0, 14.0, mn + span, 9.0, 20.0, 6.0]))
        if wmax < wmin:
            wmin, wmax = wmax, wmin
        shift = draw(st.sampled_from([0, 0, 0, 0.25, -0.4]))
        return s, grid, (wmin, wmax, wstep), shift

    def body(t):
        s, grid, window, shift = t
        case = {"pdb": s.text, "grid": list(grid), "window": list(window), "shift": shift}
        v, info = check_case(case)
        info["sample"] = {"structure": s.summary(), "grid": grid, "window": window, "model_pka_shift": shift}
        ctx.account(case, v, info)

    ctx.hypothesis_stage("grids-and-linkage", cases(), body, 5000 if quick else 60000)

    from vlib import genconf

    @st.composite
    def several(draw):
        out, summ = [], []
        for _ in range(draw(st.integers(1, 3))):
            if draw(st.booleans()):
                text, info = draw(genconf.multi_conformation(max_res=12, kinds=("models", "altloc")))
                out.append(text)
                summ.append({"structure": info["structure"].summary(), "conformations": info["labels"]})
            else:
                s = draw(gen.structures(max_res=16))
                out.append(s.text)
                summ.append(s.summary())
        grid = draw(st.sampled_from([(0.0, 14.0, 1.0), (0.0, 14.0, 0.5), (2.0, 9.0, 0.7)]))
        return out, summ, grid

    def several_body(t):
        pdbs, summ, grid = t
        case = {"kind": "several", "pdbs": pdbs, "grid": list(grid)}
        v, info = several_case(case)
        info["sample"] = {"molecules": summ, "grid": grid,
                          "history": "all calculated first; then profiles (twice) and one file per conformation"}
        ctx.account(case, v, info)

    ctx.hypothesis_stage("several-molecules-and-conformation-files", several(), several_body, 500 if quick else 6000)

    # regression witnesses of the fixed findings F2 / F3 on a corpus file
    if ctx.shard == 0:
        text = gen.corpus_text("1FTJ-Chain-A")
        items = [{"pdb": text, "grid": list(g), "window": list(w), "shift": 0} for g, w in (
            ((0.0, 7.0, 0.7), (0.0, 14.0, 1.0)), ((0.0, 14.0, 0.05), (0.0, 14.0, 1.0)),
            ((1.0, 2.0, 0.1), (0.0, 14.0, 1.0)), ((0.0, 14.0, 0.1), (0.0, 14.0, 2.0)),
            ((0.0, 14.0, 0.1), (0.0, 14.0, 3.0)), ((0.0, 14.0, 0.3), (0.0, 14.0, 1.0)))]

        def one(c):
            v, info = check_case(c)
            info["sample"] = {"structure": "corpus 1FTJ-Chain-A", "grid": c["grid"], "window": c["window"]}
            ctx.account(c, v, info)
        ctx.loop_stage("F2-F3-regression", items, one)
