"""C04 - predictions do not depend on where the structure sits in space.

Metamorphic oracle under exact grid motions (24 axis-permuting proper rotations x integer milli-Angstrom
translations); records are keyed by file position and centres are mapped back through the exact inverse motion.

 layer 1 (every structure)        heavy-atom bond sets, protein and ion groups, centres, desolvation terms, buried
                                  counts equal (1e-9 / exact)
 layer 2 (amino-acid structures)  hydrogens supplied (frame-0 hydrogens written into the input, --keep-protons in
                                  both frames): the entire record is equal within 1e-9
 layer 3 (amino-acid structures)  program builds the hydrogens: (a) hydrogen sets correspond one-to-one per parent
                                  within one grid step; (b) explained difference - the record of frame T equals the
                                  frame-0 keep-protons record obtained by feeding frame T's hydrogens, mapped back,
                                  into frame 0
"""
from hypothesis import strategies as st

from vlib import gen, observe, pdbio, common, refs
from vlib.pdbio import Atom
from props import c07

PROPERTY = "C04"
REDUCE_KEYS = ["pdb"]
LEVEL = "exploration"
RULE = ("structures (corpus segments / balls with threaded mutations, ligands, ions, clashing side chains; the corpus "
        "files themselves) x one of the 24 proper grid rotations (all 24 per structure in the thorough tier) x an "
        "integer milli-A translation (0.001 A steps, multiples of the 2.51 A cell size, moves into negative "
        "coordinates, field-limit extremes, anywhere in the coordinate field, straddling planes whose cell index is a "
        "power of two up to 5140 A). Non-trivial: the motion is not the identity and the structure has >= 1 "
        "group with non-zero desolvation (layer 1) / >= 1 group with a determinant (layers 2, 3); distinct by hash "
        "of (input, motion, layer).")
ASSUMPTIONS = [
    "cases where an atom pair sits exactly on a bond threshold, or a group-centre/atom distance lies within 1e-6 A of "
    "the 15 A / 20 A cut-offs, are labelled cutoff-tie and excluded (a rigid motion may legitimately flip them)",
    "open known finding F8 (C-terminus with two carbons within bonding distance of the terminal oxygen) is excluded by "
    "signature",
    "hetero groups are outside layers 2 and 3 by the statement",
]

CELL = 2510


def motion_strategy(bbox):
    (x0, y0, z0), (x1, y1, z1) = bbox

    @st.composite
    def strat(draw):
        rot_i = draw(st.integers(0, 23))
        rot = pdbio.ROTATIONS[rot_i]
        # extent after rotation
        lo = pdbio.apply_motion((x0, y0, z0), rot, (0, 0, 0))
        hi = pdbio.apply_motion((x1, y1, z1), rot, (0, 0, 0))
        mn = [min(a, b) for a, b in zip(lo, hi)]
        mx = [max(a, b) for a, b in zip(lo, hi)]
        trans = []
        kind = draw(st.sampled_from(["zero", "tiny", "tiny", "cell", "cell", "negative", "negative", "any", "any",
                                     "any", "extreme", "extreme", "field", "field", "pow2-cell-plane",
                                     "pow2-cell-plane"]))
        for i in range(3):
            tmin, tmax = pdbio.COORD_MIN + 2000 - mn[i], pdbio.COORD_MAX - 2000 - mx[i]   # room for hydrogens
            if kind == "zero":
                t = 0
            elif kind == "tiny":
                t = draw(st.integers(-3, 3))
            elif kind == "cell":
                t = CELL * draw(st.integers(-40, 40)) + draw(st.sampled_from([0, 0, 1, -1]))
            elif kind == "negative":
                t = -mx[i] - draw(st.integers(0, 300000))
            elif kind == "field":
                # anywhere the coordinate field allows
                t = draw(st.integers(tmin, tmax))
            elif kind == "pow2-cell-plane":
                # the structure straddles a plane whose cell index is a power of two (cell edge 2.51 A): index
                # arithmetic, packing or hashing of the cell list changes regime there
                plane = CELL * 2 ** draw(st.integers(3, 11)) * draw(st.sampled_from([1, 1, -1]))
                t = plane - draw(st.integers(mn[i], mx[i]))
            elif kind == "extreme":
                t = draw(st.sampled_from([tmin, tmax, tmin + 7, tmax - 13]))
            else:
                t = draw(st.integers(-500000, 500000))
            trans.append(max(tmin, min(tmax, t)))
        return rot_i, tuple(trans), kind
    return strat()


def bond_ties(entries):
    """True if some atom pair sits exactly on a bonding threshold (integer arithmetic)."""
    atoms = pdbio.atoms_of(entries)
    grid = gen.Grid(atoms, cell=3000)
    for a in atoms:
        for b in grid.near(a, 2600):
            if a is b:
                continue
            _bonded, tie = refs.ref_bonded(a.element, a.xyz, b.element, b.xyz)
            if tie:
                return True
    return False


def ambiguous_cterm_atoms(entries):
    """Terminal oxygens with >= 2 carbon atoms within bonding distance (known finding F8)."""
    atoms = pdbio.atoms_of(entries)
    grid = gen.Grid(atoms, cell=3000)
    out = []
    for a in atoms:
        if a.rec == "ATOM" and a.aname in pdbio.TERMINAL_O:
            n = sum(1 for b in grid.near(a, 2000) if b is not a and b.element == "C")
            if n >= 2:
                out.append(a)
    return out


def f8_sig(entries, keys):
    amb = ambiguous_cterm_atoms(entries)
    if not amb or not keys:
        return None
    atoms = pdbio.atoms_of(entries)
    for k in keys:
        if not isinstance(k, int):
            return None
        if not any(pdbio.sq_dist(atoms[k], t) < 30000 ** 2 for t in amb):
            return None
    return "cterm-ambiguous-carbon"


def free_rotamer_sig(entries, parent):
    """'free-rotamer' if the parent heavy atom has exactly one heavy neighbour X by the reference bond rule and X does
    not define a plane (fewer than two other heavy neighbours, or a non-planar centre).  Known finding F11: the
    hydrogens of such an atom are then placed about Vector.orthogonal(), a frame-dependent axis."""
    atoms = pdbio.atoms_of(entries)
    if not isinstance(parent, int):
        return None
    heavy = [b for b in atoms if not b.is_h]
    grid = gen.Grid(heavy, cell=3000)

    def neighbours(a):
        return [b for b in grid.near(a, 2600) if b is not a and refs.ref_bonded(a.element, a.xyz, b.element, b.xyz)[0]]
    a = atoms[parent]
    nb = neighbours(a)
    if len(nb) != 1:
        return None
    x = nb[0]
    # only the sp2 nitrogens of ARG / ASN / GLN take the plane of their trigonal neighbour; every other atom with a
    # single neighbour (sp3 by the program's electron count, e.g. a backbone N without its CA or without the
    # preceding C) is protonated about Vector.orthogonal()
    if (a.resn, a.aname) not in (("ARG", "NH1"), ("ARG", "NH2"), ("ASN", "ND2"), ("GLN", "NE2")) or a.rec != "ATOM":
        return "free-rotamer"
    others = [b for b in neighbours(x) if b is not a]
    if len(others) < 2:
        return "free-rotamer"
    if len(others) >= 3:
        return "free-rotamer"            # four neighbours: not a trigonal centre
    # three neighbours in total: planar (trigonal) or not?
    v = [(b.x - x.x, b.y - x.y, b.z - x.z) for b in [a] + others]
    n = (v[0][1] * v[1][2] - v[0][2] * v[1][1], v[0][2] * v[1][0] - v[0][0] * v[1][2], v[0][0] * v[1][1] - v[0][1] * v[1][0])
    nn = sum(c * c for c in n) ** 0.5
    l3 = sum(c * c for c in v[2]) ** 0.5
    if nn == 0 or l3 == 0:
        return "free-rotamer"
    dev = abs(sum(p * q for p, q in zip(n, v[2]))) / (nn * l3)
    return "free-rotamer" if dev > 0.2 else None


def centre_tie(rec, entries, key, conf):
    """True if the group's centre is within 1e-6 A of the 15 A or 20 A cut-off to some heavy atom."""
    g = next((g for g in rec["confs"][conf]["groups"] if g["key"] == key), None)
    if g is None:
        return False
    cx, cy, cz = g["center"]
    for a in pdbio.atoms_of(entries):
        if a.is_h:
            continue
        d2 = (cx - a.x / 1000.0) ** 2 + (cy - a.y / 1000.0) ** 2 + (cz - a.z / 1000.0) ** 2
        for cut in (15.0, 20.0):
            if abs(d2 ** 0.5 - cut) < 1e-6:
                return True
    return False


def heavy_bonds(conf_rec):
    out = set()
    for a in conf_rec["atoms"]:
        if a["elem"] == "H" or not isinstance(a["key"], int):
            continue
        for b in a["bonded"]:
            if isinstance(b, int):
                out.add((min(a["key"], b), max(a["key"], b)))
    return out


def moved_text(text, rot_i, trans):
    return pdbio.write(pdbio.move(pdbio.parse(text), pdbio.ROTATIONS[rot_i], trans))


def layer1(text, rot_i, trans, opt=()):
    entries = pdbio.parse(text)
    ttext = moved_text(text, rot_i, trans)
    r0 = observe.run(text, list(opt), name="a", want_atoms=True)
    rt = observe.run(ttext, list(opt), name="a", want_atoms=True)
    if r0["error"] or rt["error"]:
        if r0["error"] and rt["error"] and r0["error"]["type"] == rt["error"]["type"]:
            return [], {"labels": ["both-error"]}, r0
        return [{"clause": "layer1/no-error", "detail": "frame 0: %r, moved: %r" % (r0["error"], rt["error"])}], {}, r0
    v = []
    rot = pdbio.ROTATIONS[rot_i]
    labels = []
    for c in r0["conf_names"]:
        b0, bt = heavy_bonds(r0["confs"][c]), heavy_bonds(rt["confs"][c])
        if b0 != bt:
            only0, onlyt = sorted(b0 - bt)[:3], sorted(bt - b0)[:3]
            v.append({"clause": "layer1/heavy-atom-bonds", "detail": "bonds only in frame 0: %r, only in moved frame: "
                      "%r" % (only0, onlyt)})
            break
        i0, _ = observe.index_groups(r0["confs"][c])
        it, _ = observe.index_groups(rt["confs"][c])
        diffs = []
        for k in sorted(set(i0) | set(it), key=str):
            g0, gt = i0.get(k), it.get(k)
            g = g0 or gt
            is_lig = g["hetatm"] and g["type"] != "ION"
            if g0 is None or gt is None:
                if not is_lig:
                    diffs.append({"conf": c, "key": k[0], "label": g["label"],
                                  "diffs": ["group present only in %s frame" % ("original" if g0 else "moved")]})
                continue
            d = observe.compare_groups(g0, gt, tol=1e-9, fields=("evol", "eloc", "buried", "model_pka"),
                                       check_dets=False)
            if g0["nvol"] != gt["nvol"]:
                d.append("nvol %r vs %r" % (g0["nvol"], gt["nvol"]))
            back = pdbio.invert_motion(tuple(x * 1000.0 for x in gt["center"]), rot, trans)
            if max(abs(back[i] / 1000.0 - g0["center"][i]) for i in range(3)) > 1e-6:
                d.append("centre %r vs mapped-back %r" % (g0["center"], tuple(x / 1000.0 for x in back)))
            if d:
                diffs.append({"conf": c, "key": k[0], "label": g0["label"], "diffs": d})
        if diffs:
            keys = [d["key"] for d in diffs]
            sig = f8_sig(entries, keys)
            if sig is None:
                # open finding F21: the recognised groups of a hetero residue differ between the frames (ring perception
                # follows the bond-list order); then the centre of its coupled system, and with it the desolvation of
                # its remaining groups, differs under common_charge_centre
                changed = set()
                for k in set(i0) ^ set(it):
                    g = i0.get(k) or it.get(k)
                    if g["hetatm"] and g["type"] != "ION":
                        changed.add((g["chain"], g["resnum"]))
                by_key = {}
                for k, g in list(i0.items()) + list(it.items()):
                    by_key.setdefault(k[0], g)
                if changed and all(k in by_key and by_key[k]["hetatm"] and by_key[k]["type"] != "ION"
                                   and (by_key[k]["chain"], by_key[k]["resnum"]) in changed for k in keys):
                    sig = "ligand-typing-frame"
            if sig is None and all(centre_tie(r0, entries, k, c) for k in keys):
                labels.append("cutoff-tie")
                continue
            v.append({"clause": "layer1/groups", "detail": common.fmt_diffs(diffs), "sig": sig})
            break
    stats = common.interaction_stats(r0)
    return v, {"labels": labels, "nontrivial": stats["with_desolv"] >= 1}, r0


def h_by_parent(conf_rec):
    out = {}
    for a in conf_rec["atoms"]:
        if a["elem"] == "H" and isinstance(a["key"], tuple):
            out.setdefault(a["key"][1], []).append(a["xyz"])
    return out


def layer23(text, rot_i, trans, r0, opt=()):
    """Amino-acid-only structures.  r0: frame-0 default record with atoms."""
    v = []
    labels = []
    rot = pdbio.ROTATIONS[rot_i]
    ttext = moved_text(text, rot_i, trans)
    # ---- layer 2: hydrogens supplied ----
    fed0, amb, nh = c07.feed_back_hydrogens(text, r0)
    if amb:
        return [], {"labels": ["h-ambiguous"]}
    fedt = moved_text(fed0, rot_i, trans)
    k0 = observe.run(fed0, ["-k"] + list(opt), name="a")
    kt = observe.run(fedt, ["-k"] + list(opt), name="a")
    diffs = observe.compare_records(k0, kt, tol=1e-9)
    if diffs:
        # (open finding F19: the angle partner of a COO-ARG pair is the first entry of a bond list, and the order of
        # bond lists follows the frame-dependent cell-list traversal)
        v.append({"clause": "layer2/keep-protons-record", "detail": common.fmt_diffs(diffs),
                  "sig": f8_sig(pdbio.parse(text), [d["key"] for d in diffs]) or c07.coo_arg_sig(k0, kt, diffs, None)})
    # ---- layer 3: program builds the hydrogens in the moved frame ----
    rt = observe.run(ttext, list(opt), name="a", want_atoms=True)
    if rt["error"]:
        v.append({"clause": "layer3/no-error", "detail": repr(rt["error"])})
        return v, {"labels": labels}
    worst = 0.0
    for c in r0["conf_names"]:
        h0, ht = h_by_parent(r0["confs"][c]), h_by_parent(rt["confs"][c])
        for parent in set(h0) | set(ht):
            a = sorted(h0.get(parent, []))
            b = sorted(pdbio.invert_motion(x, rot, trans) for x in ht.get(parent, []))
            if len(a) != len(b):
                v.append({"clause": "layer3a/hydrogen-count", "detail": "parent atom %r: %d vs %d hydrogens" % (
                    parent, len(a), len(b))})
                break
            # greedy one-to-one matching within one grid step per coordinate
            left = list(b)
            for p in a:
                m = next((q for q in left if max(abs(p[i] - q[i]) for i in range(3)) <= 1), None)
                if m is None:
                    v.append({"clause": "layer3a/hydrogen-position", "detail": "parent atom %r: %r has no partner "
                              "within one grid step among %r" % (parent, p, left),
                              "sig": free_rotamer_sig(pdbio.parse(text), parent)
                              or f8_sig(pdbio.parse(text), [parent])})
                    break
                left.remove(m)
    if not [x for x in v if x["clause"] != "layer3a/hydrogen-position" or not x.get("sig")]:
        # (b) explained difference: feed frame T's hydrogens, mapped back, into frame 0 and run with keep-protons
        back = {"conf_names": r0["conf_names"], "confs": {}}
        for c in rt["conf_names"]:
            atoms = []
            for a in rt["confs"][c]["atoms"]:
                a = dict(a)
                a["xyz"] = pdbio.invert_motion(a["xyz"], rot, trans)
                atoms.append(a)
            back["confs"][c] = {"atoms": atoms}
        fedb, amb2, _n = c07.feed_back_hydrogens(text, back)
        if not amb2:
            kb = observe.run(fedb, ["-k"] + list(opt), name="a")
            km = common.xyz_keymap(fedb, text)
            diffs = observe.compare_records(rt, kb, tol=1e-9, keymap=km)
            if diffs:
                v.append({"clause": "layer3b/explained-difference", "detail": common.fmt_diffs(diffs),
                          "sig": f8_sig(pdbio.parse(text), [d["key"] for d in diffs])
                          or c07.coo_arg_sig(rt, kb, diffs, None)})
        for c in r0["conf_names"]:
            i0, _ = observe.index_groups(r0["confs"][c])
            it, _ = observe.index_groups(rt["confs"][c])
            for k in set(i0) & set(it):
                worst = max(worst, abs(i0[k]["pka"] - it[k]["pka"]))
    stats = common.interaction_stats(r0)
    return v, {"labels": labels, "nontrivial": stats["with_dets"] >= 1, "worst_dpka": worst}


def check_case(case):
    text, rot_i, trans = case["pdb"], case["rot"], tuple(case["trans"])
    entries = pdbio.parse(text)
    if bond_ties(entries):
        return [], {"labels": ["cutoff-tie"]}
    opt = []
    if case.get("cfgspec"):
        from vlib import cfgs
        opt = cfgs.options(case["cfgspec"])
    v, info, r0 = layer1(text, rot_i, trans, opt)
    labels = list(info.get("labels", [])) + (["parameter-variant"] if opt else [])
    nontrivial = info.get("nontrivial", False) and (rot_i != 0 or any(trans))
    worst = None
    if not v and case.get("layers23") and not r0["error"] and common.is_amino_only(entries):
        v2, info2 = layer23(text, rot_i, trans, r0, opt)
        v += v2
        labels += info2.get("labels", []) + ["layers2+3"]
        nontrivial = nontrivial or (info2.get("nontrivial", False) and (rot_i != 0 or any(trans)))
        worst = info2.get("worst_dpka")
    out = {"labels": labels, "nontrivial": nontrivial}
    if worst is not None:
        out["worst_dpka"] = worst
    return v, out


def replay(case):
    return check_case(case)[0]


def run_shard(ctx):
    quick = ctx.tier == "quick"
    worst = [0.0]

    @st.composite
    def cases(draw, amino):
        s = draw(gen.structures(max_res=30 if quick else 60, allow_hetero=not amino, allow_clash=False))
        rot_i, trans, kind = draw(motion_strategy(pdbio.bbox(s.entries)))
        spec = None
        if draw(st.integers(0, 4)) == 0:
            # the charge-centre / sharing switches of the parameter file (covalently coupled systems: a chain starting
            # with ASP, CYS or HIS, ligands with several groups of one kind)
            spec = {"changes": {"common_charge_centre": "1", "shared_determinants": draw(st.sampled_from(["0", "1"])),
                                "remove_penalised_group": draw(st.sampled_from(["0", "1"]))}}
        return s, rot_i, trans, kind, spec

    def make_body(layers23):
        def body(t):
            s, rot_i, trans, kind, spec = t
            rots = [rot_i] if quick else list(range(24))
            for r in rots:
                tr = trans
                if r != rot_i:
                    # keep the rotated structure inside the field: translate its bounding box to the same corner
                    lo0 = pdbio.bbox(pdbio.move(s.entries, pdbio.ROTATIONS[rot_i], trans))[0]
                    lo1, hi1 = pdbio.bbox(pdbio.move(s.entries, pdbio.ROTATIONS[r], (0, 0, 0)))
                    tr = tuple(a - b for a, b in zip(lo0, lo1))
                    # the rotated box has its edges permuted: pull it back inside the coordinate field if needed
                    tr = tuple(t - max(0, h + t - (pdbio.COORD_MAX - 2500)) for t, h in zip(tr, hi1))
                case = {"pdb": s.text, "rot": r, "trans": list(tr), "layers23": layers23, "cfgspec": spec}
                v, info = check_case(case)
                if info.get("worst_dpka"):
                    worst[0] = max(worst[0], info["worst_dpka"])
                info["labels"] = info.get("labels", []) + ["trans:" + kind, "rot:%d" % r]
                info["sample"] = {"structure": s.summary(), "rotation": pdbio.ROTATIONS[r], "translation_mA": tr,
                                  "layers": "1+2+3" if layers23 else "1"}
                ctx.account(case, v, info)
        return body

    ctx.hypothesis_stage("layer1-any-structure", cases(False), make_body(False), 1400 if quick else 1400)
    ctx.hypothesis_stage("layers123-amino-acid", cases(True), make_body(True), 500 if quick else 500)

    # disulfide contacts of every length the distance table allows, along axes and diagonals, in every orientation
    @st.composite
    def ss_cases(draw):
        ents, info = draw(gen.bridged_chains())
        rot_i, trans, kind = draw(motion_strategy(pdbio.bbox(ents)))
        return ents, info, rot_i, trans, kind

    def ss_body(t):
        ents, sinfo, rot_i, trans, kind = t
        text = pdbio.write(ents)
        for r in ([rot_i] if quick else range(24)):
            case = {"pdb": text, "rot": r, "trans": list(trans) if r == rot_i else [0, 0, 0], "layers23": False}
            v, info = check_case(case)
            info["labels"] = info.get("labels", []) + ["disulfide-contact", "trans:" + kind, "rot:%d" % r]
            info["sample"] = {"structure": "two chains joined by an S-S contact", **sinfo,
                              "rotation": pdbio.ROTATIONS[r], "translation_mA": case["trans"]}
            ctx.account(case, v, info)

    ctx.hypothesis_stage("layer1-disulfide-contacts", ss_cases(), ss_body, 600 if quick else 600)

    # buried hosts (whole reference proteins with threaded clusters): only there the backbone-reorganisation term and
    # the Coulomb terms are switched on, so only there a frame dependence of those routines can show
    @st.composite
    def buried_cases(draw):
        s = draw(gen.buried_structures(with_hetero=False))
        rot_i, trans, kind = draw(motion_strategy(pdbio.bbox(s.entries)))
        return s, rot_i, trans, kind

    def buried_body(t):
        s, rot_i, trans, kind = t
        case = {"pdb": s.text, "rot": rot_i, "trans": list(trans), "layers23": False}
        v, info = check_case(case)
        info["labels"] = info.get("labels", []) + ["buried-host", "trans:" + kind, "rot:%d" % rot_i]
        info["sample"] = {"structure": s.summary(), "rotation": pdbio.ROTATIONS[rot_i], "translation_mA": trans,
                          "layers": "1 (buried host)"}
        ctx.account(case, v, info)

    ctx.hypothesis_stage("layer1-buried-hosts", buried_cases(), buried_body, 96 if quick else 1600)

    # the corpus files themselves (incl. the F8 witness) in all 24 orientations
    names = ["1FTJ-Chain-A", "1HPX", "3SGB", "4DFR", "sample-issue-140", "conf-model-missing-atoms"]
    shifts = [(100123, -250500, 7001), (1, 0, -1), (-2510 * 30, 2510 * 3, 0), (0, 0, 0)]
    combos = [(n, r) for n in names for r in range(24)]
    mine = [combos[i] for i in ctx.my_slice(len(combos))]

    def one(t):
        name, r = t
        c = {"pdb": gen.corpus_text(name), "rot": r, "trans": list(shifts[r % 4]), "layers23": False}
        if name in ("4DFR", "3SGB") and r % 3 == 1:
            # the reference files with covalently coupled systems, under a common charge centre
            c["cfgspec"] = {"changes": {"common_charge_centre": "1"}}
        v, info = check_case(c)
        info["sample"] = {"structure": "corpus " + name, "rotation": pdbio.ROTATIONS[r], "translation_mA": c["trans"],
                          "cfgspec": c.get("cfgspec")}
        ctx.account(c, v, info)
    ctx.loop_stage("corpus-files-24-orientations", mine, one, exhaustive=False)
    ctx.notes["max_raw_dpka_between_frames_when_program_builds_hydrogens"] = worst[0]
