"""C12 - incomplete structures degrade gracefully (fault enumeration).

Faults = deletions of atoms / residues from valid structures.  Oracle: propka.run.single returns without an
exception and the census of C01 holds on what remains (every site whose defining atom remains is reported, nothing
else); input without any atom record, or with an unknown file type, is rejected with ValueError and nothing else.
"""
import io
import itertools

from hypothesis import strategies as st

from vlib import gen, observe, pdbio, common
from vlib.pdbio import Atom
from props import c01

PROPERTY = "C12"
REDUCE_KEYS = ["pdb"]
LEVEL = "fault_enumeration"
RULE = ("(i) exhaustive: for each of the 20 residue types X, the tripeptide GLY-X-GLY(+OXT) built on a corpus "
        "backbone, every subset of X's heavy atoms deleted (28,976 cases), and for the ionizable types also with X as "
        "N-terminal and as C-terminal (OXT-carrying) residue (every subset of X's atoms incl. OXT); (ii) random: "
        "generated structures (ligands, ions, several chains) with drawn deletions of single atoms, side chains, "
        "backbone atoms, terminal atoms, whole residues and ligand atoms at rates 2-60 %; (iii) an atheris (libFuzzer) target decoding bytes "
        "into template choice + deletion mask + jitter with coverage feedback over propka.*; (iv) rejection: inputs "
        "without any usable atom record and unknown file types. Non-trivial: the deletion removed at least one atom "
        "that group set-up or an interaction routine reads (any atom of an ionizable / H-bonding residue, a backbone "
        "N/C/O, a terminal oxygen, a ligand atom); enumerated cases are distinct by construction, random ones by "
        "hash.")
ASSUMPTIONS = ["the census oracle of C01 (vlib/census.py) defines 'every ionizable group whose defining atom remains'",
               "ligand groups are only required not to crash and to be type-consistent (their typing legitimately "
               "changes when ligand atoms are removed)"]

CENSUS_CLAUSES = ("runs", "census-bijection", "model-pka", "bridged-cys", "titratable-flag", "summary-bijection",
                  "average-census", "summary-parse", "ion-charge", "ligand-model-pka", "ligand-charge")
READ_BY_SETUP = set(gen.IONIZABLE) | set(gen.HBONDERS)


def check_text(text, optargs=()):
    v, info = c01.check_case({"pdb": text, "optargs": list(optargs)})
    v = [x for x in v if x["clause"] in CENSUS_CLAUSES]
    for x in v:
        x["clause"] = "degrade/" + x["clause"]
    return v, info


def replay(case):
    if case.get("kind") == "reject":
        return reject_violations(case)
    return check_text(case["pdb"], case.get("optargs", []))[0]


def tripeptide(xtype, position):
    """GLY-X-GLY / X-GLY / GLY-X on a fixed corpus backbone; the last residue carries OXT."""
    chains = gen.protein_chains("1FTJ-Chain-A")
    ress = chains[0][1][20:23]
    types = {"mid": ["GLY", xtype, "GLY"], "nterm": [xtype, "GLY"], "cterm": ["GLY", xtype]}[position]
    ress = ress[:len(types)]
    out = []
    xi = types.index(xtype) if position != "mid" else 1
    for i, (res, t) in enumerate(zip(ress, types)):
        new = gen.mutate_residue(res, t, 0)
        for a in new:
            a.resnum = 1 + i
            a.chain = "A"
        if i == len(types) - 1:
            oxt = gen.make_oxt(new)
            new.append(oxt)
        out.append(new)
    return out, xi


def reject_violations(case):
    import propka.run
    name, text, opt = case["name"], case["text"], case.get("optargs", [])
    try:
        propka.run.single(name, opt, stream=io.StringIO(text), write_pka=False)
    except ValueError:
        return []
    except BaseException as e:
        return [{"clause": "reject/ValueError", "detail": "%s with %r: raised %s: %s" % (
            name, case.get("what"), type(e).__name__, str(e)[:120])}]
    return [{"clause": "reject/ValueError", "detail": "%s with %r: accepted" % (name, case.get("what"))}]


def run_shard(ctx):
    quick = ctx.tier == "quick"

    # ---- (i) exhaustive single-residue truncations -------------------------------------------------------------
    jobs = []
    for t in pdbio.AMINO:
        jobs.append((t, "mid"))
        if t in gen.IONIZABLE:
            jobs.append((t, "nterm"))
            jobs.append((t, "cterm"))
    work = []
    for t, pos in jobs:
        ress, xi = tripeptide(t, pos)
        n = len(ress[xi])
        for mask in range(1 << n):
            work.append((t, pos, mask))
    mine = [work[i] for i in ctx.my_slice(len(work))]
    cache = {}

    def enum_body(item):
        t, pos, mask = item
        if (t, pos) not in cache:
            cache.clear()
            cache[(t, pos)] = tripeptide(t, pos)
        ress, xi = cache[(t, pos)]
        entries = []
        deleted = []
        for i, res in enumerate(ress):
            for j, a in enumerate(res):
                if i == xi and (mask >> j) & 1:
                    deleted.append(a.aname)
                    continue
                entries.append(a)
        entries = [a.copy() for a in entries]
        pdbio.renumber_serials(entries)
        text = pdbio.write(entries + [gen.ter_line(entries[-1])])
        v, _info = check_text(text)
        case = {"pdb": text, "deleted": deleted, "residue": t, "position": pos}
        info = {"nontrivial": mask != 0, "labels": ["enum:" + pos]}
        if mask in (0b1010, (1 << len(ress[xi])) - 2) and t in ("ARG", "HIS", "TRP"):
            info["sample"] = {"tripeptide": "%s %s" % (t, pos), "deleted_atoms": deleted}
        ctx.account(case, v, info, hashed=False)

    ctx.loop_stage("exhaustive-single-residue", mine, enum_body, exhaustive=True)

    # ---- (ii) random multi-residue deletions -------------------------------------------------------------------------
    @st.composite
    def cases(draw):
        # (no interpenetrating threaded side chains here: with a carboxyl carbon bonded into the backbone oxygen of
        # another residue and its own oxygens deleted, the group centre falls on that oxygen and the backbone term
        # divides by zero - a crash, but of an input that is not a truncation of any real structure)
        s = draw(gen.structures(max_res=30 if quick else 60, allow_clash=False))
        entries = [e for e in s.entries]
        atoms = pdbio.atoms_of(entries)
        rate = draw(st.sampled_from([2, 5, 10, 20, 35, 60]))
        kind = draw(st.sampled_from(["atoms", "atoms", "sidechains", "backbone", "residues", "termini", "ligand",
                                     "mixed"]))
        drop = set()
        res = pdbio.residues(entries)
        for (key, ats) in res:
            if kind in ("residues",) and draw(st.integers(0, 99)) < rate:
                drop.update(id(a) for a in ats)
            for a in ats:
                r = draw(st.integers(0, 99)) if kind in ("atoms", "mixed", "backbone", "sidechains", "ligand",
                                                         "termini") else 100
                if kind in ("atoms", "mixed") and r < rate:
                    drop.add(id(a))
                elif kind == "sidechains" and a.aname not in pdbio.BACKBONE and r < rate * 2:
                    drop.add(id(a))
                elif kind == "backbone" and a.aname in pdbio.BACKBONE and r < rate:
                    drop.add(id(a))
                elif kind == "ligand" and a.rec == "HETATM" and r < max(rate, 30):
                    drop.add(id(a))
                elif kind == "termini" and (a.aname in pdbio.TERMINAL_O or a.aname in ("N", "C", "O")) and \
                        (ats is res[0][1] or ats is res[-1][1] or a.aname in pdbio.TERMINAL_O) and r < 50:
                    drop.add(id(a))
        kept = [e for e in entries if not (isinstance(e, Atom) and id(e) in drop)]
        dropped = [a for a in atoms if id(a) in drop]
        return s, pdbio.write(kept), kind, rate, dropped

    def body(t):
        s, text, kind, rate, dropped = t
        if not pdbio.atoms_of(pdbio.parse(text)):
            ctx.labels["skipped:everything-deleted"] += 1
            return
        v, _info = check_text(text)
        case = {"pdb": text}
        touched = any(a.resn in READ_BY_SETUP or a.aname in ("N", "C", "O") + pdbio.TERMINAL_O or a.rec == "HETATM"
                      for a in dropped)
        info = {"nontrivial": touched, "labels": ["delete:" + kind, "rate:%d" % rate],
                "sample": {"structure": s.summary(), "deletion": kind, "rate_percent": rate,
                           "deleted": ["%s %s%d" % (a.aname, a.resn, a.resnum) for a in dropped[:12]]}}
        ctx.account(case, v, info)

    ctx.hypothesis_stage("random-deletions", cases(), body, 3000 if quick else 40000)

    # ---- (iii) coverage-guided, structure-aware deletion fuzzing (atheris), oracle inside the target ----------------
    from vlib import fuzzrun
    from vlib.runner import hseed, Violation
    for payload in fuzzrun.run_target(ctx, "atheris-deletions", "fuzz_c12.py", 120 if quick else 6000, 256,
                                      hseed(ctx.seed, "C12", "atheris", ctx.shard)):
        case = {"pdb": payload["pdb"]}
        try:
            ctx.account(case, check_text(payload["pdb"])[0] or [{"clause": "fuzz-target",
                                                                 "detail": repr(payload["violation"])}], {})
        except Violation as v:
            ctx.record_violation("atheris-deletions", v)
            break

    # ---- (iv) rejection -------------------------------------------------------------------------------------------------
    if ctx.shard == 0:
        base = pdbio.write([a for a in pdbio.atoms_of(pdbio.parse(gen.corpus_text("1FTJ-Chain-A"))) if a.resnum < 8])
        water = "HETATM    1  O   HOH A   1       1.000   2.000   3.000  1.00  0.00           O  \n"
        hyd = "ATOM      1  H   GLY A   1       1.000   2.000   3.000  1.00  0.00           H  \n"
        items = [
            {"kind": "reject", "name": "x.pdb", "text": "", "what": "empty file"},
            {"kind": "reject", "name": "x.pdb", "text": "HEADER junk\nREMARK nothing\nEND\n", "what": "no atom records"},
            {"kind": "reject", "name": "x.pdb", "text": water * 3, "what": "only waters"},
            {"kind": "reject", "name": "x.pdb", "text": hyd * 2, "what": "only hydrogens"},
            {"kind": "reject", "name": "x.pdb", "text": base, "optargs": ["-c", "Z"], "what": "chain selection empty"},
            {"kind": "reject", "name": "x.pdb", "text": "TER   \nMODEL        1\nENDMDL\n", "what": "only TER/MODEL"},
            {"kind": "reject", "name": "x.ent", "text": base, "what": "unknown extension .ent"},
            {"kind": "reject", "name": "x.cif", "text": base, "what": "unknown extension .cif"},
            {"kind": "reject", "name": "x", "text": base, "what": "no extension"},
            {"kind": "reject", "name": "x.pdb.gz", "text": base, "what": "unknown extension .gz"},
            {"kind": "reject", "name": "x.propka_input", "text": base, "what": "removed input format"},
        ]

        def rej(c):
            v = reject_violations(c)
            ctx.account(c, v, {"nontrivial": True, "labels": ["reject"],
                               "sample": {"name": c["name"], "what": c["what"]}})
        ctx.loop_stage("rejection", items, rej, exhaustive=True)
